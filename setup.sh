#!/bin/sh
# builds the gosym engine from /verif/engine, offline
set -e
cd "$(dirname "$0")/engine"
export GOFLAGS=-mod=mod GOPROXY=off GOSUMDB=off GOTOOLCHAIN=local
mkdir -p ../bin
go build -o ../bin/gosym .
