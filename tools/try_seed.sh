#!/bin/sh
# usage: try_seed.sh <seed-id> <worktree> <demo test name> <prop> [<prop>...]
# confirms the demonstration in the worktree, stores the seeded change under /verif/seeded/<seed-id>,
# applies it to /repo, runs the named checks (quick), reverts /repo.
set -u
id="$1"; wt="$2"; demo="$3"; shift 3
export GOFLAGS=-mod=mod GOPROXY=off GOSUMDB=off GOTOOLCHAIN=local
out=/verif/seeded/$id; mkdir -p $out
cd $wt || exit 2
[ -f patch.diff ] || git diff -- '*.go' ':!zz_demo_test.go' > patch.diff
cp patch.diff $out/patch.diff; cp zz_demo_test.go $out/zz_demo_test.go 2>/dev/null; cp meta.json $out/agent_meta.json 2>/dev/null
echo "--- demo with change:"; go test -vet=off -count=1 -run "$demo\$" . 2>&1 | tail -3 > $out/demo_with_change.txt; tail -2 $out/demo_with_change.txt
echo "--- suite with change:"; go test -vet=off -count=1 -run . -skip "$demo" ./... 2>&1 | tail -2 | tee $out/suite_with_change.txt
git apply -R patch.diff; echo "--- demo without change:"; go test -vet=off -count=1 -run "$demo\$" . 2>&1 | tail -2 | tee $out/demo_without_change.txt; git apply patch.diff
cd /repo && git apply $out/patch.diff || { echo "PATCH DOES NOT APPLY"; exit 3; }
go build ./... || { git checkout -- .; exit 4; }
cd /verif
for p in "$@"; do
  ./check $p -noevidence > $out/check_$p.txt 2>&1; rc=$?
  echo "--- check $p exit=$rc: $(grep -c '^VIOLATION' $out/check_$p.txt) VIOLATION lines; $(tail -1 $out/check_$p.txt | cut -c1-150)"
done
git -C /repo checkout -- .
git -C /repo status --short
