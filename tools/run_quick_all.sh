#!/bin/sh
cd "$(dirname "$0")/.."
for p in C01 C02 C03 C04 C05 C06 C07 C08 C09 C10 C11 C12 C13 C14 C15 C16 C17 C18 C19 C20; do
  ./check $p > /tmp/quick_$p.log 2>&1; rc=$?
  echo "$p exit=$rc viol=$(grep -c '^VIOLATION' /tmp/quick_$p.log) degr=$(grep -c '^DEGRADED' /tmp/quick_$p.log) $(tail -1 /tmp/quick_$p.log | sed 's/.*paths=/paths=/' | cut -c1-150)"
done
