#!/bin/sh
# runs every thorough check in sequence, one log per property (for validating the thorough tier on the unchanged tree)
cd "$(dirname "$0")/.."
mkdir -p thorough_logs
for p in "$@"; do
  echo "== $p $(date +%H:%M:%S)"
  ./check $p --tier thorough -noevidence > thorough_logs/$p.log 2>&1
  echo "   exit=$? $(grep -c '^VIOLATION' thorough_logs/$p.log) violations; $(grep -c '^DEGRADED' thorough_logs/$p.log) degraded; $(tail -1 thorough_logs/$p.log | cut -c1-160)"
done
