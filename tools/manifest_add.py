#!/usr/bin/env python3
"""usage: manifest_add.py <PID> <level text> <level note> <design ref>"""
import json, sys
pid, text, note, design = sys.argv[1:5]
m = json.load(open('/verif/MANIFEST.json'))
m['checks'] = [c for c in m['checks'] if c['property_id'] != pid]
m['checks'].append({"property_id": pid, "quick_cmd": f"./check {pid} --tier quick", "thorough_cmd": f"./check {pid} --tier thorough",
  "evidence_file": f"/verif/evidence/{pid}.json", "replay_cmd_template": "./check replay {path}", "engine": "gosym",
  "level_claimed": {"category": "model_checking", "text": text, "design_ref": design}, "level_note": note,
  "technique": "bounded symbolic execution of go/ssa + SMT (z3), counterexamples replayed natively"})
m['checks'].sort(key=lambda c: c['property_id'])
m['not_applicable'] = [n for n in m['not_applicable'] if n['property_id'] != pid]
m['engines'][0]['serves_properties'] = sorted(c['property_id'] for c in m['checks'])
json.dump(m, open('/verif/MANIFEST.json', 'w'), indent=1)
