#!/bin/sh
# usage: try_seed2.sh <seed-id> <worktree> <demo test name> <prop> [<prop>...]
# like try_seed.sh, but the checks run against the scratch worktree itself (VERIF_REPO), /repo is not touched
set -u
here="$(cd "$(dirname "$0")/.." && pwd)"
id="$1"; wt="$2"; demo="$3"; shift 3
export GOFLAGS=-mod=mod GOPROXY=off GOSUMDB=off GOTOOLCHAIN=local
out=$here/seeded/$id; mkdir -p $out
cd $wt || exit 2
[ -f patch.diff ] || git diff -- '*.go' ':!zz_demo_test.go' > patch.diff
cp patch.diff $out/patch.diff; cp zz_demo_test.go $out/zz_demo_test.go 2>/dev/null; cp meta.json $out/agent_meta.json 2>/dev/null
go test -vet=off -count=1 -run "$demo\$" . 2>&1 | tail -3 > $out/demo_with_change.txt
go test -vet=off -count=1 -run . -skip "$demo" ./... 2>&1 | tail -2 > $out/suite_with_change.txt
git apply -R patch.diff; go test -vet=off -count=1 -run "$demo\$" . 2>&1 | tail -2 > $out/demo_without_change.txt; git apply patch.diff
echo "$id: demo-with=$(grep -c FAIL $out/demo_with_change.txt) suite=$(grep -c '^ok' $out/suite_with_change.txt) demo-without=$(grep -c '^ok' $out/demo_without_change.txt)"
for p in "$@"; do
  VERIF_REPO=$wt $here/check $p -noevidence > $out/check_$p.txt 2>&1; rc=$?
  echo "   check $p exit=$rc: $(grep -c '^VIOLATION' $out/check_$p.txt) VIOLATION; $(grep '^DEGRADED' $out/check_$p.txt | cut -c1-160 | head -2 | tr '\n' ' ')"
done
