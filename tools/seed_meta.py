#!/usr/bin/env python3
"""usage: seed_meta.py <seed-dir-name> [--note "caught-by note"] [--summary S] [--needs N]
Builds /verif/seeded/<dir>/meta.json from agent_meta.json, the demo outputs and check_<ID>.txt
files written by tools/try_seed.sh, then regenerates seeded/README.md."""
import json, os, sys, glob, re
root = '/verif/seeded'
def build(d, note=None, summary=None, needs=None):
    p = os.path.join(root, d)
    old = {}
    if os.path.exists(p + '/meta.json'):
        old = json.load(open(p + '/meta.json'))
    am = {}
    if os.path.exists(p + '/agent_meta.json'):
        try: am = json.load(open(p + '/agent_meta.json'))
        except Exception: am = {}
    rd = lambda f: open(os.path.join(p, f)).read().strip() if os.path.exists(os.path.join(p, f)) else ''
    runs, caught = {}, []
    for f in sorted(glob.glob(p + '/check_*.txt')):
        pid = os.path.basename(f)[6:-4]
        txt = open(f).read().splitlines()
        v = [l for l in txt if l.startswith('VIOLATION')]
        s = [l[:200] for l in txt if l.startswith('SUMMARY')]
        runs[pid] = {'violation_lines': v[:5], 'summary': s}
        if v: caught.append(pid)
    m = {
        'property': old.get('property') or am.get('property') or d[:3],
        'summary': summary or old.get('summary') or am.get('summary', ''),
        'needs_to_manifest': needs or old.get('needs_to_manifest') or am.get('needs', ''),
        'origin': 'written by an independent sub-agent that saw only the property text and its own scratch worktree',
        'confirmed_by_me': {
            'demo_fails_with_change': rd('demo_with_change.txt'),
            'existing_suite_with_change': rd('suite_with_change.txt'),
            'demo_passes_without_change': rd('demo_without_change.txt'),
            'procedure': 'tools/try_seed.sh: run demo in the scratch worktree with and without the change, run the existing suite with it, git apply to /repo, run the quick checks, git checkout',
        },
        'caught_by': caught,
        'caught_by_note': note or old.get('caught_by_note', ''),
        'check_runs_latest': runs,
    }
    json.dump(m, open(p + '/meta.json', 'w'), indent=1)
    return m
def readme():
    head = open(root + '/README.md').read().split('| directory |')[0]
    rows = ['| directory | property | change | needs | caught by |', '|---|---|---|---|---|']
    for d in sorted(os.listdir(root)):
        f = os.path.join(root, d, 'meta.json')
        if not os.path.exists(f): continue
        m = json.load(open(f))
        cb = '; '.join(m.get('caught_by', [])) or 'NOT CAUGHT'
        if m.get('caught_by_note'): cb += ' (' + m['caught_by_note'] + ')'
        cell = lambda s: re.sub(r'\s+', ' ', s).replace('|', '\\|')
        short = lambda s: cell(s if len(s) < 330 else s[:327] + '...')
        rows.append('| `%s` | %s | %s | %s | %s |' % (d, m['property'], short(m['summary']), short(m['needs_to_manifest']), cell(cb)))
    open(root + '/README.md', 'w').write(head + '\n'.join(rows) + '\n')
if __name__ == '__main__':
    a = sys.argv[1:]
    if a and a[0] != '--readme':
        d = a[0]; kw = {}
        for i in range(1, len(a) - 1, 2):
            kw[a[i].lstrip('-')] = a[i + 1]
        build(d, **kw)
    readme()
