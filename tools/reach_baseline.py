#!/usr/bin/env python3
"""Regenerates /verif/reach_baseline.json from the evidence files of a quick run on the unchanged tree:
for every harness the vReach labels some path reached. ./check reports a label of this list that no path
reaches any more as DEGRADED (the check became vacuous for that behaviour class)."""
import json, glob
out = {}
for f in sorted(glob.glob('/verif/evidence/C*.json')):
    d = json.load(open(f))
    if d.get('tier') != 'quick':
        continue
    for h in d['coverage']['harnesses']:
        out[h['harness']] = sorted(k for k, v in (h.get('vacuity_witnesses') or {}).items() if v > 0)
json.dump(out, open('/verif/reach_baseline.json', 'w'), indent=1, sort_keys=True)
print(len(out), 'harnesses')
