#!/bin/sh
# usage: sweep_seeds.sh [seed-dir ...]   (default: all)
# re-applies every seeded change to /repo, runs the quick check of its own property, reverts;
# prints one line per seed. /repo must be clean. Logs: /verif/seeded/<dir>/check_<ID>.txt
cd /verif
[ -z "$(git -C /repo status --short)" ] || { echo "/repo is not clean"; exit 2; }
seeds="$@"; [ -n "$seeds" ] || seeds=$(ls -d seeded/*/ | xargs -n1 basename)
for d in $seeds; do
  p=$(python3 -c "import json;print(json.load(open('seeded/$d/meta.json'))['property'])")
  git -C /repo apply /verif/seeded/$d/patch.diff || { echo "$d: PATCH DOES NOT APPLY"; continue; }
  ./check $p -noevidence > seeded/$d/check_$p.txt 2>&1; rc=$?
  git -C /repo checkout -- .
  echo "$d $p exit=$rc viol=$(grep -c '^VIOLATION' seeded/$d/check_$p.txt)"
done
