package main

import (
	"fmt"
	"go/types"

	"golang.org/x/tools/go/ssa"
)

// Value is one of: *Term (bool / integer), StrV, BytesV, SliceV, *StructV,
// PtrV, MapV, Iface, *FuncV, TupleV, *ArrayV, OpaqueV.
type Value interface{}

type StrV struct{ r Rope }

// BytesObj is the backing store of a []byte.
type BytesObj struct {
	id    int
	rope  Rope  // full backing content, length == capacity
	cap   *Term // BV64
	epoch int
	tag   string // provenance label ("input", ...)
	aliasOf *BytesObj // this object is a view into another buffer (decoder call-backs)
	fromCell *Cell    // slice of an array variable (provenance)
}

type BytesV struct {
	obj         *BytesObj // nil => nil slice
	off, n, cap *Term     // BV64
}

type ArrObj struct {
	id    int
	elems []Value
	epoch int
}

type SliceV struct {
	obj         *ArrObj // nil => nil slice
	off, n, cap int
}

type StructV struct {
	fields []Value
}

type ArrayV struct { // Go array value (immutable, copy on write)
	elems []Value
}

type Cell struct {
	id    int
	val   Value
	epoch int
	name  string
}

// PtrV points to a cell (optionally a field path inside its value) or to a
// slice element.
type PtrV struct {
	cell *Cell
	arr  *ArrObj
	idx  int
	bobj *BytesObj
	boff *Term
	path []int
}

func (p PtrV) isNil() bool { return p.cell == nil && p.arr == nil && p.bobj == nil }

type mapEntry struct {
	k, v Value
}

type MapObj struct {
	id      int
	entries []mapEntry
	epoch   int
}

type MapV struct{ obj *MapObj }

type Iface struct {
	typ types.Type // nil => nil interface
	val Value
}

type FuncV struct {
	fn   *ssa.Function
	caps []Value
	// bound method on fake type
	stub string
	recv Value
}

type TupleV []Value

// OpaqueV is an engine-level handle (curve, enc/dec mode, hash state, rand, float...).
type OpaqueV struct {
	kind string
	data interface{}
}

// BigV is the value of a math/big.Int cell.
type BigV struct {
	mag *Term // any width
	neg *Term // bool
	bl  *Term // optional: abstract bit length (RSA moduli are represented only by their size)
}

// ErrV is an engine-made error object (fmt.Errorf results and stub errors).
type ErrV struct {
	text  string
	wraps []Value // Iface values
}

type rangeIter struct {
	entries []mapEntry
	pos     int
	str     *StrV
}

func (e *Engine) newCell(v Value, name string) *Cell {
	e.nextObj++
	return &Cell{id: e.nextObj, val: v, epoch: e.epoch, name: name}
}
func (e *Engine) newBytesObj(r Rope, capT *Term) *BytesObj {
	e.nextObj++
	return &BytesObj{id: e.nextObj, rope: r, cap: capT, epoch: e.epoch}
}
func (e *Engine) newArrObj(elems []Value) *ArrObj {
	e.nextObj++
	return &ArrObj{id: e.nextObj, elems: elems, epoch: e.epoch}
}
func (e *Engine) newMapObj() *MapObj {
	e.nextObj++
	return &MapObj{id: e.nextObj, epoch: e.epoch}
}

// bytesFromRope makes a fresh []byte value holding r (len == cap).
func (e *Engine) bytesFromRope(r Rope) BytesV {
	n := e.ropeLen(r)
	o := e.newBytesObj(r, n)
	return BytesV{obj: o, off: e.c64(0), n: n, cap: n}
}

func (e *Engine) bytesRope(b BytesV) Rope {
	if b.obj == nil {
		return nil
	}
	if b.obj.fromCell != nil && e.pooled[b.obj.fromCell] {
		e.goPanic("use of memory after it was handed back to a sync.Pool (shared with concurrent callers: data race)")
	}
	if b.off.isConst() && b.off.u64() == 0 && b.n == b.obj.cap {
		return b.obj.rope
	}
	end := e.tt.Bin("bvadd", b.off, b.n)
	if end == b.obj.cap || end == e.ropeLen(b.obj.rope) {
		// a suffix of the backing store: only the lower bound needs locating
		_, rest := e.splitAt(b.obj.rope, b.off)
		return rest
	}
	return e.ropeSlice(b.obj.rope, b.off, end)
}

func intWidth(t types.Type) (w int, signed bool, ok bool) {
	b, isB := t.Underlying().(*types.Basic)
	if !isB {
		return 0, false, false
	}
	switch b.Kind() {
	case types.Int8:
		return 8, true, true
	case types.Int16:
		return 16, true, true
	case types.Int32, types.UntypedRune:
		return 32, true, true
	case types.Int, types.Int64, types.UntypedInt:
		return 64, true, true
	case types.Uint8:
		return 8, false, true
	case types.Uint16:
		return 16, false, true
	case types.Uint32:
		return 32, false, true
	case types.Uint, types.Uint64, types.Uintptr:
		return 64, false, true
	}
	return 0, false, false
}

func isByteSlice(t types.Type) bool {
	s, ok := t.Underlying().(*types.Slice)
	if !ok {
		return false
	}
	b, ok := s.Elem().Underlying().(*types.Basic)
	return ok && b.Kind() == types.Uint8
}

func isBigInt(t types.Type) bool {
	n, ok := t.(*types.Named)
	return ok && n.Obj().Pkg() != nil && n.Obj().Pkg().Path() == "math/big" && n.Obj().Name() == "Int"
}

func (e *Engine) zero(t types.Type) Value {
	if isBigInt(t) {
		return BigV{mag: e.tt.BVu(0, 8), neg: e.tt.Bool(false)}
	}
	switch u := t.Underlying().(type) {
	case *types.Basic:
		switch {
		case u.Info()&types.IsBoolean != 0:
			return e.tt.Bool(false)
		case u.Info()&types.IsString != 0:
			return StrV{}
		case u.Info()&types.IsInteger != 0:
			w, _, _ := intWidth(u)
			return e.tt.BVu(0, w)
		case u.Info()&types.IsFloat != 0:
			return OpaqueV{kind: "float", data: 0.0}
		case u.Kind() == types.UnsafePointer:
			return PtrV{}
		case u.Kind() == types.UntypedNil:
			return Iface{}
		}
	case *types.Slice:
		if isByteSlice(t) {
			return BytesV{off: e.c64(0), n: e.c64(0), cap: e.c64(0)}
		}
		return SliceV{}
	case *types.Struct:
		fs := make([]Value, u.NumFields())
		for i := range fs {
			fs[i] = e.zero(u.Field(i).Type())
		}
		return &StructV{fields: fs}
	case *types.Array:
		es := make([]Value, u.Len())
		for i := range es {
			es[i] = e.zero(u.Elem())
		}
		return &ArrayV{elems: es}
	case *types.Pointer:
		return PtrV{}
	case *types.Map:
		return MapV{}
	case *types.Interface:
		return Iface{}
	case *types.Signature:
		return (*FuncV)(nil)
	case *types.Chan:
		return OpaqueV{kind: "chan"}
	case *types.Tuple:
		tv := make(TupleV, u.Len())
		for i := range tv {
			tv[i] = e.zero(u.At(i).Type())
		}
		return tv
	}
	e.unsupported(fmt.Sprintf("zero value of %s", t))
	return nil
}

func (e *Engine) c64(v uint64) *Term { return e.tt.BVu(v, 64) }

// load/store through pointers -------------------------------------------------

func getPath(v Value, path []int) Value {
	for _, i := range path {
		switch x := v.(type) {
		case *StructV:
			v = x.fields[i]
		case *ArrayV:
			v = x.elems[i]
		default:
			panic(fmt.Sprintf("getPath through %T", v))
		}
	}
	return v
}

func setPath(v Value, path []int, nv Value) Value {
	if len(path) == 0 {
		return nv
	}
	switch x := v.(type) {
	case *StructV:
		fs := make([]Value, len(x.fields))
		copy(fs, x.fields)
		fs[path[0]] = setPath(fs[path[0]], path[1:], nv)
		return &StructV{fields: fs}
	case *ArrayV:
		es := make([]Value, len(x.elems))
		copy(es, x.elems)
		es[path[0]] = setPath(es[path[0]], path[1:], nv)
		return &ArrayV{elems: es}
	}
	panic(fmt.Sprintf("setPath through %T", v))
}

func (e *Engine) load(p PtrV) Value {
	switch {
	case p.cell != nil:
		return getPath(p.cell.val, p.path)
	case p.arr != nil:
		return getPath(p.arr.elems[p.idx], p.path)
	case p.bobj != nil:
		return e.ropeIndex(p.bobj.rope, p.boff)
	}
	e.goPanic("runtime error: invalid memory address or nil pointer dereference")
	return nil
}

func (e *Engine) store(p PtrV, v Value) {
	switch {
	case p.cell != nil:
		e.noteWrite(p.cell.epoch, "cell", p.cell.id, p.cell.name)
		p.cell.val = setPath(p.cell.val, p.path, v)
	case p.arr != nil:
		e.noteWrite(p.arr.epoch, "slice-elem", p.arr.id, "")
		p.arr.elems[p.idx] = setPath(p.arr.elems[p.idx], p.path, v)
	case p.bobj != nil:
		e.noteWrite(p.bobj.epoch, "byte", p.bobj.id, p.bobj.tag)
		one := e.c64(1)
		p.bobj.rope = e.ropeReplace(p.bobj.rope, p.boff, one, Rope{SegSym{v.(*Term)}})
	default:
		e.goPanic("runtime error: invalid memory address or nil pointer dereference")
	}
}

// noteWrite records a store into an object allocated before the last freeze.
func (e *Engine) noteWrite(objEpoch int, kind string, id int, name string) {
	if e.frozen > 0 && objEpoch < e.frozen {
		e.preWrites++
		e.preWriteIDs = append(e.preWriteIDs, id)
		if objEpoch == 0 {
			e.globalWrites++
		}
		if len(e.preWriteLog) < 8 {
			where := ""
			if e.curInstr != nil {
				where = e.prog.Fset.Position(e.curInstr.Pos()).String()
				if fn := e.curInstr.Parent(); fn != nil {
					where = fn.String() + " @ " + where
				}
			}
			e.preWriteLog = append(e.preWriteLog, fmt.Sprintf("%s#%d %s at %s", kind, id, name, where))
		}
	}
}
