package main

import (
	"fmt"
	"go/constant"
	"go/token"
	"go/types"
	"math/big"
	"strings"

	"golang.org/x/tools/go/ssa"
)

type frame struct {
	fn        *ssa.Function
	env       map[ssa.Value]Value
	defers    []func()
	panicking *goPanicT
	recovered bool
	deferredBy *frame // set while this frame runs as a deferred call of another frame
	result    Value
}

const maxDepth = 200
const maxSteps = 4_000_000

func (e *Engine) callFunction(fn *ssa.Function, args []Value) (result Value) {
	if len(fn.Blocks) == 0 {
		e.unsupported("call of function without body: " + fn.String())
	}
	e.depth++
	if e.depth > maxDepth {
		e.endPath("limit", "recursion depth (unwinding assertion) in "+fn.String())
	}
	defer func() { e.depth-- }()
	if fn.Pkg == e.cose || (fn.Origin() != nil && fn.Origin().Pkg == e.cose) {
		e.res.funcs[fn.String()] = true
	}
	fr := &frame{fn: fn, env: make(map[ssa.Value]Value, 32)}
	for i, p := range fn.Params {
		fr.env[p] = args[i]
	}
	savedInstr := e.curInstr
	defer func() { e.curInstr = savedInstr }()

	if fn.Recover == nil && !hasDefer(fn) {
		return e.runBlocks(fr, fn.Blocks[0])
	}
	// functions with defers: catch Go panics to run the deferred calls
	func() {
		defer func() {
			if r := recover(); r != nil {
				gp, ok := r.(goPanicT)
				if !ok {
					panic(r)
				}
				fr.panicking = &gp
			}
		}()
		result = e.runBlocks(fr, fn.Blocks[0])
	}()
	if fr.panicking != nil {
		e.runDefers(fr)
		if fr.panicking != nil {
			panic(*fr.panicking)
		}
		// recovered
		if fn.Recover != nil {
			return e.runBlocks(fr, fn.Recover)
		}
		return e.zeroResults(fn)
	}
	return result
}

func hasDefer(fn *ssa.Function) bool {
	for _, b := range fn.Blocks {
		for _, in := range b.Instrs {
			if _, ok := in.(*ssa.Defer); ok {
				return true
			}
		}
	}
	return false
}

func (e *Engine) zeroResults(fn *ssa.Function) Value {
	res := fn.Signature.Results()
	switch res.Len() {
	case 0:
		return nil
	case 1:
		return e.zero(res.At(0).Type())
	}
	tv := make(TupleV, res.Len())
	for i := range tv {
		tv[i] = e.zero(res.At(i).Type())
	}
	return tv
}

func (e *Engine) runDefers(fr *frame) {
	for len(fr.defers) > 0 {
		d := fr.defers[len(fr.defers)-1]
		fr.defers = fr.defers[:len(fr.defers)-1]
		d()
	}
}

func (e *Engine) runBlocks(fr *frame, b *ssa.BasicBlock) Value {
	var prev *ssa.BasicBlock
	for {
		next, ret, done := e.runBlock(fr, b, prev)
		if done {
			return ret
		}
		prev, b = b, next
	}
}

func (e *Engine) runBlock(fr *frame, b *ssa.BasicBlock, prev *ssa.BasicBlock) (next *ssa.BasicBlock, ret Value, done bool) {
	// phis first (parallel assignment)
	i := 0
	var phiVals []Value
	for ; i < len(b.Instrs); i++ {
		phi, ok := b.Instrs[i].(*ssa.Phi)
		if !ok {
			break
		}
		idx := -1
		for k, p := range b.Preds {
			if p == prev {
				idx = k
				break
			}
		}
		phiVals = append(phiVals, e.eval(fr, phi.Edges[idx]))
	}
	for k := 0; k < i; k++ {
		fr.env[b.Instrs[k].(*ssa.Phi)] = phiVals[k]
	}
	for ; i < len(b.Instrs); i++ {
		in := b.Instrs[i]
		e.curInstr = in
		e.steps++
		if e.steps > maxSteps {
			e.endPath("limit", "step limit (unwinding assertion)")
		}
		switch x := in.(type) {
		case *ssa.If:
			c := e.eval(fr, x.Cond).(*Term)
			if e.branch(c) {
				return b.Succs[0], nil, false
			}
			return b.Succs[1], nil, false
		case *ssa.Jump:
			return b.Succs[0], nil, false
		case *ssa.Return:
			var rv Value
			switch len(x.Results) {
			case 0:
			case 1:
				rv = e.eval(fr, x.Results[0])
			default:
				tv := make(TupleV, len(x.Results))
				for k, r := range x.Results {
					tv[k] = e.eval(fr, r)
				}
				rv = tv
			}
			return nil, rv, true
		case *ssa.Panic:
			v := e.eval(fr, x.X)
			panic(goPanicT{val: v, msg: "explicit panic: " + e.describe(v)})
		case *ssa.RunDefers:
			e.runDefers(fr)
		case *ssa.Defer:
			e.doDefer(fr, x)
		case *ssa.Store:
			p := e.eval(fr, x.Addr).(PtrV)
			e.store(p, e.eval(fr, x.Val))
		case *ssa.MapUpdate:
			e.mapUpdate(e.eval(fr, x.Map).(MapV), e.eval(fr, x.Key), e.eval(fr, x.Value))
		case *ssa.DebugRef:
		case *ssa.Go, *ssa.Send, *ssa.Select:
			e.unsupported(fmt.Sprintf("instruction %T", in))
		case ssa.Value:
			fr.env[x] = e.evalInstr(fr, x)
		default:
			e.unsupported(fmt.Sprintf("instruction %T", in))
		}
	}
	e.unsupported("block fell through")
	return
}

func (e *Engine) describe(v Value) string {
	switch x := v.(type) {
	case Iface:
		if x.typ == nil {
			return "nil"
		}
		if s, ok := x.val.(StrV); ok {
			if b, ok := ropeConcrete(s.r); ok {
				return string(b)
			}
		}
		if p, ok := x.val.(PtrV); ok && p.cell != nil {
			if ev, ok := p.cell.val.(ErrV); ok {
				return ev.text
			}
			if sv, ok := p.cell.val.(*StructV); ok && len(sv.fields) == 1 {
				if s, ok := sv.fields[0].(StrV); ok {
					if b, ok := ropeConcrete(s.r); ok {
						return string(b)
					}
				}
			}
		}
		return x.typ.String()
	}
	return fmt.Sprintf("%T", v)
}

func (e *Engine) doDefer(fr *frame, d *ssa.Defer) {
	// evaluate function and args now
	call := d.Call
	var fnv Value
	var args []Value
	if call.IsInvoke() {
		e.unsupported("deferred invoke")
	}
	switch f := call.Value.(type) {
	case *ssa.Builtin:
		e.unsupported("deferred builtin " + f.Name())
	default:
		fnv = e.eval(fr, call.Value)
	}
	for _, a := range call.Args {
		args = append(args, e.eval(fr, a))
	}
	fr.defers = append(fr.defers, func() {
		fv := fnv.(*FuncV)
		e.panicFrames = append(e.panicFrames, fr)
		defer func() { e.panicFrames = e.panicFrames[:len(e.panicFrames)-1] }()
		e.callFuncV(fv, args)
	})
}

func (e *Engine) eval(fr *frame, v ssa.Value) Value {
	switch x := v.(type) {
	case *ssa.Const:
		return e.constVal(x)
	case *ssa.Global:
		return PtrV{cell: e.globalCell(x)}
	case *ssa.Function:
		return &FuncV{fn: x}
	case *ssa.Builtin:
		return &FuncV{stub: "builtin:" + x.Name()}
	}
	r, ok := fr.env[v]
	if !ok {
		e.unsupported(fmt.Sprintf("unbound SSA value %s (%T)", v.Name(), v))
	}
	return r
}

func (e *Engine) globalCell(g *ssa.Global) *Cell {
	c, ok := e.globals[g]
	if !ok && g.Pkg != e.cose {
		// globals of packages whose init is not executed
		switch g.String() {
		case "io.EOF":
			c = e.newCell(e.mkErr("EOF"), g.String())
		case "io.ErrUnexpectedEOF":
			c = e.newCell(e.mkErr("unexpected EOF"), g.String())
		case "crypto/rand.Reader":
			c = e.newCell(Iface{typ: e.fake("rand"), val: OpaqueV{kind: "rand"}}, g.String())
		case "encoding/binary.BigEndian", "encoding/binary.LittleEndian":
			// zero-size method carriers: their zero value is their value
			c = e.newCell(e.zero(g.Type().(*types.Pointer).Elem()), g.String())
		default:
			e.unsupported("read of uninitialised foreign global " + g.String())
		}
		c.epoch = 0
		e.globals[g] = c
		return c
	}
	if !ok {
		c = e.newCell(e.zero(g.Type().(*types.Pointer).Elem()), g.String())
		c.epoch = 0
		e.globals[g] = c
	}
	return c
}

func (e *Engine) constVal(c *ssa.Const) Value {
	t := c.Type()
	if c.Value == nil {
		return e.zero(t)
	}
	if tp, ok := t.(*types.TypeParam); ok {
		_ = tp
		e.unsupported("const of type parameter")
	}
	switch u := t.Underlying().(type) {
	case *types.Basic:
		switch {
		case u.Info()&types.IsBoolean != 0:
			return e.tt.Bool(constant.BoolVal(c.Value))
		case u.Info()&types.IsString != 0:
			return StrV{ropeLit([]byte(constant.StringVal(c.Value)))}
		case u.Info()&types.IsInteger != 0:
			w, _, _ := intWidth(u)
			bi, _ := new(big.Int).SetString(c.Value.ExactString(), 10)
			if bi == nil {
				// may be a rune or other form
				v, _ := constant.Int64Val(constant.ToInt(c.Value))
				bi = big.NewInt(v)
			}
			return e.tt.BV(bi, w)
		case u.Info()&types.IsFloat != 0:
			f, _ := constant.Float64Val(c.Value)
			return OpaqueV{kind: "float", data: f}
		}
	}
	e.unsupported("constant of type " + t.String())
	return nil
}

func (e *Engine) evalInstr(fr *frame, in ssa.Value) Value {
	switch x := in.(type) {
	case *ssa.Alloc:
		return PtrV{cell: e.newCell(e.zero(x.Type().(*types.Pointer).Elem()), x.Comment)}
	case *ssa.BinOp:
		return e.binop(x.Op, e.eval(fr, x.X), e.eval(fr, x.Y), x.X.Type(), x.Y.Type())
	case *ssa.UnOp:
		return e.unop(fr, x)
	case *ssa.Call:
		return e.doCall(fr, &x.Call)
	case *ssa.ChangeInterface:
		return e.eval(fr, x.X)
	case *ssa.ChangeType:
		return e.eval(fr, x.X)
	case *ssa.Convert:
		return e.convert(e.eval(fr, x.X), x.X.Type(), x.Type())
	case *ssa.Extract:
		return e.eval(fr, x.Tuple).(TupleV)[x.Index]
	case *ssa.Field:
		return e.eval(fr, x.X).(*StructV).fields[x.Field]
	case *ssa.FieldAddr:
		p := e.eval(fr, x.X).(PtrV)
		if p.isNil() {
			e.goPanic("runtime error: invalid memory address or nil pointer dereference")
		}
		np := p
		np.path = append(append([]int{}, p.path...), x.Field)
		return np
	case *ssa.Index:
		switch c := e.eval(fr, x.X).(type) {
		case *ArrayV:
			i := e.concreteIndex(e.eval(fr, x.Index).(*Term), len(c.elems))
			return c.elems[i]
		case StrV:
			i := e.idx64(e.eval(fr, x.Index).(*Term), x.Index.Type())
			if !e.branch(e.tt.Cmp("bvult", i, e.ropeLen(c.r))) {
				e.goPanic("runtime error: index out of range (string)")
			}
			return e.ropeIndex(c.r, i)
		}
		e.unsupported("Index on non-array")
	case *ssa.IndexAddr:
		return e.indexAddr(e.eval(fr, x.X), e.eval(fr, x.Index).(*Term), x.Index.Type())
	case *ssa.Lookup:
		return e.lookup(e.eval(fr, x.X), e.eval(fr, x.Index), x)
	case *ssa.MakeClosure:
		fv := &FuncV{fn: x.Fn.(*ssa.Function)}
		for _, b := range x.Bindings {
			fv.caps = append(fv.caps, e.eval(fr, b))
		}
		return fv
	case *ssa.MakeInterface:
		return Iface{typ: x.X.Type(), val: e.eval(fr, x.X)}
	case *ssa.MakeMap:
		return MapV{obj: e.newMapObj()}
	case *ssa.MakeSlice:
		return e.makeSlice(x.Type(), e.eval(fr, x.Len).(*Term), e.eval(fr, x.Cap).(*Term), x.Len.Type())
	case *ssa.Range:
		return e.makeRange(e.eval(fr, x.X))
	case *ssa.Next:
		return e.next(e.eval(fr, x.Iter).(*rangeIter), x)
	case *ssa.Slice:
		return e.sliceOp(fr, x)
	case *ssa.TypeAssert:
		return e.typeAssert(e.eval(fr, x.X), x)
	case *ssa.Phi:
		e.unsupported("phi in block body")
	}
	e.unsupported(fmt.Sprintf("value instruction %T", in))
	return nil
}

func (e *Engine) concreteIndex(i *Term, n int) int {
	i = e.to64(i, true)
	if !e.branch(e.tt.Cmp("bvult", i, e.c64(uint64(n)))) {
		e.goPanic("runtime error: index out of range")
	}
	v, ok := e.concretize(i, n)
	if !ok {
		e.unsupported("symbolic index")
	}
	return int(v)
}

func (e *Engine) to64(t *Term, signed bool) *Term {
	if t.w == 64 {
		return t
	}
	if signed {
		return e.tt.SExt(t, 64)
	}
	return e.tt.ZExt(t, 64)
}

func (e *Engine) idx64(t *Term, typ types.Type) *Term {
	_, s, _ := intWidth(typ)
	return e.to64(t, s)
}

func (e *Engine) indexAddr(x Value, idx *Term, idxT types.Type) Value {
	i64 := e.idx64(idx, idxT)
	switch c := x.(type) {
	case SliceV:
		if !e.branch(e.tt.Cmp("bvult", i64, e.c64(uint64(c.n)))) {
			e.goPanic("runtime error: index out of range")
		}
		i, ok := e.concretize(i64, c.n)
		if !ok {
			e.unsupported("symbolic slice index")
		}
		return PtrV{arr: c.obj, idx: c.off + int(i)}
	case BytesV:
		if !e.branch(e.tt.Cmp("bvult", i64, c.n)) {
			e.goPanic("runtime error: index out of range")
		}
		return PtrV{bobj: c.obj, boff: e.tt.Bin("bvadd", c.off, i64)}
	case PtrV: // pointer to array
		arr, ok := e.load(c).(*ArrayV)
		if !ok {
			e.unsupported("IndexAddr on pointer to non-array")
		}
		i := e.concreteIndex(idx, len(arr.elems))
		np := c
		np.path = append(append([]int{}, c.path...), i)
		return np
	}
	e.unsupported(fmt.Sprintf("IndexAddr on %T", x))
	return nil
}

func (e *Engine) makeSlice(t types.Type, n, c *Term, lenT types.Type) Value {
	n, c = e.idx64(n, lenT), e.idx64(c, lenT)
	if e.branch(e.tt.Cmp("bvslt", n, e.c64(0))) || e.branch(e.tt.Cmp("bvslt", c, n)) {
		e.goPanic("runtime error: makeslice: len out of range")
	}
	if isByteSlice(t) {
		var r Rope
		if !(c.isConst() && c.u64() == 0) {
			r = Rope{SegZero{c}}
		}
		o := e.newBytesObj(r, c)
		return BytesV{obj: o, off: e.c64(0), n: n, cap: c}
	}
	cn, ok := e.concretize(c, 0)
	nn, ok2 := e.concretize(n, 0)
	if !ok || !ok2 || cn > 1<<16 {
		e.unsupported("make of non-byte slice with symbolic size")
	}
	elems := make([]Value, cn)
	et := t.Underlying().(*types.Slice).Elem()
	for i := range elems {
		elems[i] = e.zero(et)
	}
	return SliceV{obj: e.newArrObj(elems), off: 0, n: int(nn), cap: int(cn)}
}

func (e *Engine) sliceOp(fr *frame, x *ssa.Slice) Value {
	base := e.eval(fr, x.X)
	var lo, hi, max *Term
	if x.Low != nil {
		lo = e.idx64(e.eval(fr, x.Low).(*Term), x.Low.Type())
	}
	if x.High != nil {
		hi = e.idx64(e.eval(fr, x.High).(*Term), x.High.Type())
	}
	if x.Max != nil {
		max = e.idx64(e.eval(fr, x.Max).(*Term), x.Max.Type())
	}
	switch b := base.(type) {
	case BytesV:
		if lo == nil {
			lo = e.c64(0)
		}
		if hi == nil {
			hi = b.n
		}
		capT := b.cap
		if max != nil {
			if !e.branch(e.tt.Cmp("bvule", max, b.cap)) {
				e.goPanic("runtime error: slice bounds out of range")
			}
			capT = max
		}
		if !e.branch(e.tt.Cmp("bvule", hi, capT)) {
			e.goPanic("runtime error: slice bounds out of range [:hi] with capacity")
		}
		if !e.branch(e.tt.Cmp("bvule", lo, hi)) {
			e.goPanic("runtime error: slice bounds out of range [lo:hi]")
		}
		if b.obj == nil {
			return b
		}
		return BytesV{obj: b.obj, off: e.tt.Bin("bvadd", b.off, lo), n: e.tt.Bin("bvsub", hi, lo), cap: e.tt.Bin("bvsub", capT, lo)}
	case StrV:
		n := e.ropeLen(b.r)
		if lo == nil {
			lo = e.c64(0)
		}
		if hi == nil {
			hi = n
		}
		if !e.branch(e.tt.Cmp("bvule", hi, n)) || !e.branch(e.tt.Cmp("bvule", lo, hi)) {
			e.goPanic("runtime error: slice bounds out of range (string)")
		}
		return StrV{e.ropeSlice(b.r, lo, hi)}
	case SliceV:
		l, h, m := 0, b.n, b.cap
		if lo != nil {
			l = e.concreteBound(lo)
		}
		if hi != nil {
			h = e.concreteBound(hi)
		}
		if max != nil {
			m = e.concreteBound(max)
			if m > b.cap {
				e.goPanic("runtime error: slice bounds out of range")
			}
		}
		if h > m || l > h || l < 0 {
			e.goPanic("runtime error: slice bounds out of range")
		}
		if b.obj == nil {
			return b
		}
		return SliceV{obj: b.obj, off: b.off + l, n: h - l, cap: m - l}
	case PtrV: // *array
		arr, ok := e.load(b).(*ArrayV)
		if !ok {
			e.unsupported("slice of pointer to non-array")
		}
		// the slice gets a copy of the array's current contents (composite literals)
		l, h := 0, len(arr.elems)
		if lo != nil {
			l = e.concreteBound(lo)
		}
		if hi != nil {
			h = e.concreteBound(hi)
		}
		if l < 0 || h > len(arr.elems) || l > h {
			e.goPanic("runtime error: slice bounds out of range")
		}
		if isByteSlice(x.Type()) {
			var r Rope
			for _, el := range arr.elems {
				t := el.(*Term)
				if t.isConst() {
					r = ropeConcat(r, Rope{SegLit{[]byte{byte(t.u64())}}})
				} else {
					r = append(r, SegSym{t})
				}
			}
			o := e.newBytesObj(r, e.c64(uint64(len(arr.elems))))
			o.fromCell = b.cell // provenance: the array this slice was taken from (sync.Pool tracking)
			return BytesV{obj: o, off: e.c64(uint64(l)), n: e.c64(uint64(h - l)), cap: e.c64(uint64(len(arr.elems) - l))}
		}
		o := e.newArrObj(append([]Value{}, arr.elems...))
		return SliceV{obj: o, off: l, n: h - l, cap: len(arr.elems) - l}
	}
	e.unsupported(fmt.Sprintf("slice of %T", base))
	return nil
}

func (e *Engine) concreteBound(t *Term) int {
	v, ok := e.concretize(t, 8)
	if !ok {
		e.unsupported("symbolic bound on non-byte slice")
	}
	return int(int64(v))
}

func (e *Engine) unop(fr *frame, x *ssa.UnOp) Value {
	v := e.eval(fr, x.X)
	switch x.Op {
	case token.MUL:
		p := v.(PtrV)
		if p.isNil() {
			e.goPanic("runtime error: invalid memory address or nil pointer dereference")
		}
		return e.load(p)
	case token.NOT:
		return e.tt.Not(v.(*Term))
	case token.SUB:
		return e.tt.BVNeg(v.(*Term))
	case token.XOR:
		return e.tt.BVNot(v.(*Term))
	}
	e.unsupported("unop " + x.Op.String())
	return nil
}

func (e *Engine) convert(v Value, from, to types.Type) Value {
	fu, tu := from.Underlying(), to.Underlying()
	if fw, fs, ok := intWidth(fu); ok {
		if tw, _, ok := intWidth(tu); ok {
			t := v.(*Term)
			switch {
			case tw == fw:
				return t
			case tw < fw:
				return e.tt.Extract(t, tw-1, 0)
			case fs:
				return e.tt.SExt(t, tw)
			default:
				return e.tt.ZExt(t, tw)
			}
		}
		if b, ok := tu.(*types.Basic); ok && b.Info()&types.IsString != 0 {
			t := v.(*Term)
			if t.isConst() {
				return StrV{ropeLit([]byte(string(rune(t.i64()))))}
			}
			e.unsupported("symbolic rune to string")
		}
		if b, ok := tu.(*types.Basic); ok && b.Info()&types.IsFloat != 0 {
			return OpaqueV{kind: "float"}
		}
	}
	if b, ok := fu.(*types.Basic); ok && b.Info()&types.IsString != 0 {
		if isByteSlice(tu) {
			return e.bytesFromRope(v.(StrV).r)
		}
		if b2, ok := tu.(*types.Basic); ok && b2.Info()&types.IsString != 0 {
			return v
		}
	}
	if isByteSlice(fu) {
		if b, ok := tu.(*types.Basic); ok && b.Info()&types.IsString != 0 {
			return StrV{e.bytesRope(v.(BytesV))}
		}
		if isByteSlice(tu) {
			return v
		}
	}
	if _, ok := fu.(*types.Pointer); ok {
		if _, ok := tu.(*types.Pointer); ok {
			return v
		}
	}
	if types.Identical(fu, tu) {
		return v
	}
	e.unsupported(fmt.Sprintf("convert %s -> %s", from, to))
	return nil
}

func (e *Engine) binop(op token.Token, a, b Value, ta, tb types.Type) Value {
	tt := e.tt
	switch x := a.(type) {
	case *Term:
		y, ok := b.(*Term)
		if !ok {
			break
		}
		if x.w == 0 { // bool
			switch op {
			case token.EQL:
				return tt.Eq(x, y)
			case token.NEQ:
				return tt.Ne(x, y)
			case token.AND, token.LAND:
				return tt.And(x, y)
			case token.OR, token.LOR:
				return tt.Or(x, y)
			}
			e.unsupported("bool op " + op.String())
		}
		_, signed, _ := intWidth(ta)
		switch op {
		case token.ADD:
			return tt.Bin("bvadd", x, y)
		case token.SUB:
			return tt.Bin("bvsub", x, y)
		case token.MUL:
			return tt.Bin("bvmul", x, y)
		case token.QUO, token.REM:
			if e.branch(tt.Eq(y, tt.BVu(0, y.w))) {
				e.goPanic("runtime error: integer divide by zero")
			}
			if signed {
				if op == token.QUO {
					return tt.Bin("bvsdiv", x, y)
				}
				return tt.Bin("bvsrem", x, y)
			}
			if op == token.QUO {
				return tt.Bin("bvudiv", x, y)
			}
			return tt.Bin("bvurem", x, y)
		case token.AND:
			if y.isConst() {
				// mask of low bits
				for k := 1; k < x.w; k++ {
					if y.val.Cmp(mask(k)) == 0 {
						return tt.ZExt(tt.Extract(x, k-1, 0), x.w)
					}
				}
			}
			return tt.Bin("bvand", x, y)
		case token.OR:
			return tt.Bin("bvor", x, y)
		case token.XOR:
			return tt.Bin("bvxor", x, y)
		case token.AND_NOT:
			return tt.Bin("bvand", x, tt.BVNot(y))
		case token.SHL, token.SHR:
			// shift count: unsigned semantic, any width
			var cnt *Term
			if y.w > x.w {
				// saturate
				big := tt.Cmp("bvuge", y, tt.BVu(uint64(x.w), y.w))
				cnt = tt.Ite(big, tt.BVu(uint64(x.w), x.w), tt.Extract(y, x.w-1, 0))
			} else {
				cnt = tt.ZExt(y, x.w)
			}
			if op == token.SHL {
				return tt.Bin("bvshl", x, cnt)
			}
			if cnt.isConst() && cnt.u64() < uint64(x.w) && !signed {
				k := int(cnt.u64())
				return tt.ZExt(tt.Extract(x, x.w-1, k), x.w)
			}
			if signed {
				return tt.Bin("bvashr", x, cnt)
			}
			return tt.Bin("bvlshr", x, cnt)
		case token.EQL:
			return tt.Eq(x, y)
		case token.NEQ:
			return tt.Ne(x, y)
		case token.LSS, token.LEQ, token.GTR, token.GEQ:
			var o string
			switch op {
			case token.LSS:
				o = "lt"
			case token.LEQ:
				o = "le"
			case token.GTR:
				o = "gt"
			case token.GEQ:
				o = "ge"
			}
			if signed {
				return tt.Cmp("bvs"+o, x, y)
			}
			return tt.Cmp("bvu"+o, x, y)
		}
	case StrV:
		y, ok := b.(StrV)
		if !ok {
			break
		}
		switch op {
		case token.ADD:
			return StrV{ropeConcat(x.r, y.r)}
		case token.EQL:
			return e.ropeEq(x.r, y.r)
		case token.NEQ:
			return tt.Not(e.ropeEq(x.r, y.r))
		}
	}
	switch op {
	case token.EQL:
		return e.valueEq(a, b)
	case token.NEQ:
		return tt.Not(e.valueEq(a, b))
	}
	e.unsupported(fmt.Sprintf("binop %s on %T,%T", op, a, b))
	return nil
}

// valueEq implements Go's == on non-scalar comparable values.
func (e *Engine) valueEq(a, b Value) *Term {
	tt := e.tt
	switch x := a.(type) {
	case *Term:
		if y, ok := b.(*Term); ok {
			if x.w != y.w {
				return tt.Bool(false)
			}
			return tt.Eq(x, y)
		}
	case StrV:
		if y, ok := b.(StrV); ok {
			return e.ropeEq(x.r, y.r)
		}
	case Iface:
		y, ok := b.(Iface)
		if !ok {
			break
		}
		if x.typ == nil || y.typ == nil {
			return tt.Bool(x.typ == nil && y.typ == nil)
		}
		if !types.Identical(x.typ, y.typ) {
			return tt.Bool(false)
		}
		if !types.Comparable(x.typ) {
			e.goPanic("runtime error: comparing uncomparable type " + x.typ.String())
		}
		return e.valueEq(x.val, y.val)
	case PtrV:
		y, ok := b.(PtrV)
		if !ok {
			break
		}
		if x.isNil() || y.isNil() {
			return tt.Bool(x.isNil() && y.isNil())
		}
		same := x.cell == y.cell && x.arr == y.arr && x.idx == y.idx && x.bobj == y.bobj && len(x.path) == len(y.path)
		if same {
			for i := range x.path {
				if x.path[i] != y.path[i] {
					same = false
				}
			}
		}
		return tt.Bool(same)
	case BytesV:
		if y, ok := b.(BytesV); ok && (x.obj == nil || y.obj == nil) {
			return tt.Bool(x.obj == nil && y.obj == nil)
		}
	case SliceV:
		if y, ok := b.(SliceV); ok && (x.obj == nil || y.obj == nil) {
			return tt.Bool(x.obj == nil && y.obj == nil)
		}
	case MapV:
		if y, ok := b.(MapV); ok && (x.obj == nil || y.obj == nil) {
			return tt.Bool(x.obj == nil && y.obj == nil)
		}
	case *FuncV:
		if y, ok := b.(*FuncV); ok && (x == nil || y == nil) {
			return tt.Bool(x == nil && y == nil)
		}
	case *StructV:
		if y, ok := b.(*StructV); ok {
			var conj []*Term
			for i := range x.fields {
				conj = append(conj, e.valueEq(x.fields[i], y.fields[i]))
			}
			return tt.And(conj...)
		}
	case OpaqueV:
		if y, ok := b.(OpaqueV); ok {
			return tt.Bool(x.kind == y.kind && x.data == y.data)
		}
	case *ArrayV:
		if y, ok := b.(*ArrayV); ok && len(x.elems) == len(y.elems) {
			conj := []*Term{}
			for i := range x.elems {
				conj = append(conj, e.valueEq(x.elems[i], y.elems[i]))
			}
			return tt.And(conj...)
		}
	}
	e.unsupported(fmt.Sprintf("== on %T,%T", a, b))
	return nil
}

// ---- maps ---------------------------------------------------------------------

func (e *Engine) mapFind(m *MapObj, key Value) int {
	for i, en := range m.entries {
		if e.branch(e.valueEq(en.k, key)) {
			return i
		}
	}
	return -1
}

func (e *Engine) checkHashable(key Value) {
	if ifc, ok := key.(Iface); ok && ifc.typ != nil && !types.Comparable(ifc.typ) {
		e.goPanic("runtime error: hash of unhashable type " + ifc.typ.String())
	}
}

func (e *Engine) mapUpdate(m MapV, k, v Value) {
	if m.obj == nil {
		e.goPanic("assignment to entry in nil map")
	}
	e.checkHashable(k)
	e.noteWrite(m.obj.epoch, "map", m.obj.id, "")
	if i := e.mapFind(m.obj, k); i >= 0 {
		m.obj.entries[i].v = v
		return
	}
	m.obj.entries = append(m.obj.entries, mapEntry{k, v})
}

func (e *Engine) mapDelete(m MapV, k Value) {
	if m.obj == nil {
		return
	}
	e.checkHashable(k)
	if i := e.mapFind(m.obj, k); i >= 0 {
		e.noteWrite(m.obj.epoch, "map", m.obj.id, "")
		m.obj.entries = append(append([]mapEntry{}, m.obj.entries[:i]...), m.obj.entries[i+1:]...)
	}
}

func (e *Engine) lookup(x Value, idx Value, in *ssa.Lookup) Value {
	switch c := x.(type) {
	case MapV:
		e.checkHashable(idx)
		elemT := in.X.Type().Underlying().(*types.Map).Elem()
		var val Value
		found := false
		if c.obj != nil {
			if i := e.mapFind(c.obj, idx); i >= 0 {
				val, found = c.obj.entries[i].v, true
			}
		}
		if !found {
			val = e.zero(elemT)
		}
		if in.CommaOk {
			return TupleV{val, e.tt.Bool(found)}
		}
		return val
	case StrV:
		i := e.idx64(idx.(*Term), in.Index.Type())
		if !e.branch(e.tt.Cmp("bvult", i, e.ropeLen(c.r))) {
			e.goPanic("runtime error: index out of range (string)")
		}
		return e.ropeIndex(c.r, i)
	}
	e.unsupported(fmt.Sprintf("lookup on %T", x))
	return nil
}

func (e *Engine) makeRange(x Value) Value {
	switch c := x.(type) {
	case MapV:
		it := &rangeIter{}
		if c.obj != nil {
			it.entries = append(it.entries, c.obj.entries...)
			if e.mapOrderNondet && len(it.entries) > 1 {
				n := len(it.entries)
				if e.mapOrderMode >= 0 {
					// one schedule for the whole run: insertion order, reversed, or rotated by one
					switch e.mapOrderMode {
					case 1:
						for i, j := 0, n-1; i < j; i, j = i+1, j-1 {
							it.entries[i], it.entries[j] = it.entries[j], it.entries[i]
						}
					case 2:
						it.entries = append(it.entries[1:], it.entries[0])
					}
				} else {
					// every range statement picks its own permutation
					perm := make([]mapEntry, 0, n)
					rest := append([]mapEntry{}, it.entries...)
					for len(rest) > 0 {
						k := e.choose(len(rest))
						perm = append(perm, rest[k])
						rest = append(rest[:k:k], rest[k+1:]...)
					}
					it.entries = perm
				}
			}
		}
		return it
	case StrV:
		e.unsupported("range over string")
	}
	e.unsupported(fmt.Sprintf("range over %T", x))
	return nil
}

func (e *Engine) next(it *rangeIter, in *ssa.Next) Value {
	tup := in.Type().(*types.Tuple)
	if it.pos >= len(it.entries) {
		z := func(t types.Type) Value {
			if b, ok := t.(*types.Basic); ok && b.Kind() == types.Invalid {
				return nil
			}
			return e.zero(t)
		}
		return TupleV{e.tt.Bool(false), z(tup.At(1).Type()), z(tup.At(2).Type())}
	}
	en := it.entries[it.pos]
	it.pos++
	e.res.unwind++
	return TupleV{e.tt.Bool(true), en.k, en.v}
}

// ---- type assertions ------------------------------------------------------------

func (e *Engine) implements(dyn types.Type, iface *types.Interface) bool {
	if n, ok := dyn.(*types.Named); ok && n.Obj().Pkg() != nil && n.Obj().Pkg().Path() == "gosym" {
		// fake types: decide by name
		switch n.Obj().Name() {
		case "err":
			return iface.NumMethods() == 1 && iface.Method(0).Name() == "Error"
		}
		return false
	}
	return types.Implements(dyn, iface)
}

func (e *Engine) typeAssert(v Value, x *ssa.TypeAssert) Value {
	ifc, ok := v.(Iface)
	if !ok {
		e.unsupported(fmt.Sprintf("type assert on %T", v))
	}
	at := x.AssertedType
	var okRes bool
	var res Value
	if it, isI := at.Underlying().(*types.Interface); isI {
		if ifc.typ != nil && e.implements(ifc.typ, it) {
			okRes, res = true, ifc
		} else {
			res = Iface{}
		}
	} else {
		if ifc.typ != nil && types.Identical(ifc.typ, at) {
			okRes, res = true, ifc.val
		} else {
			res = e.zero(at)
		}
	}
	if x.CommaOk {
		return TupleV{res, e.tt.Bool(okRes)}
	}
	if !okRes {
		dyn := "nil"
		if ifc.typ != nil {
			dyn = ifc.typ.String()
		}
		e.goPanic(fmt.Sprintf("interface conversion: interface {} is %s, not %s", dyn, at))
	}
	return res
}

// ---- calls ------------------------------------------------------------------------

func (e *Engine) callFuncV(fv *FuncV, args []Value) Value {
	if fv == nil {
		e.goPanic("runtime error: call of nil func")
	}
	if fv.stub != "" {
		return e.callStub(fv.stub, fv.recv, args)
	}
	if len(fv.caps) > 0 || len(fv.fn.FreeVars) > 0 {
		return e.callClosure(fv, args)
	}
	return e.callStatic(fv.fn, args)
}

func (e *Engine) callClosure(fv *FuncV, args []Value) Value {
	fn := fv.fn
	if len(fn.Blocks) == 0 {
		e.unsupported("closure without body")
	}
	// bind free vars by running with env prepared: emulate via wrapper
	return e.callWithFree(fn, args, fv.caps)
}

func (e *Engine) callWithFree(fn *ssa.Function, args []Value, caps []Value) (result Value) {
	e.depth++
	if e.depth > maxDepth {
		e.endPath("limit", "recursion depth")
	}
	defer func() { e.depth-- }()
	if fn.Pkg == e.cose || (fn.Parent() != nil) {
		e.res.funcs[fn.String()] = true
	}
	fr := &frame{fn: fn, env: make(map[ssa.Value]Value, 32)}
	for i, p := range fn.Params {
		fr.env[p] = args[i]
	}
	for i, fvv := range fn.FreeVars {
		fr.env[fvv] = caps[i]
	}
	if len(e.panicFrames) > 0 {
		fr.deferredBy = e.panicFrames[len(e.panicFrames)-1]
	}
	savedInstr := e.curInstr
	defer func() { e.curInstr = savedInstr }()
	if fn.Recover == nil && !hasDefer(fn) {
		return e.runBlocks(fr, fn.Blocks[0])
	}
	e.unsupported("closure with defer")
	return nil
}

func (e *Engine) doCall(fr *frame, c *ssa.CallCommon) Value {
	var args []Value
	if c.IsInvoke() {
		recv, ok := e.eval(fr, c.Value).(Iface)
		if !ok {
			e.unsupported("invoke on non-interface value")
		}
		if recv.typ == nil {
			e.goPanic("runtime error: invalid memory address or nil pointer dereference (nil interface method call)")
		}
		for _, a := range c.Args {
			args = append(args, e.eval(fr, a))
		}
		return e.invoke(recv, c.Method, args)
	}
	for _, a := range c.Args {
		args = append(args, e.eval(fr, a))
	}
	switch f := c.Value.(type) {
	case *ssa.Builtin:
		return e.builtin(f.Name(), args, c)
	case *ssa.Function:
		return e.callStatic(f, args)
	}
	fv, ok := e.eval(fr, c.Value).(*FuncV)
	if !ok {
		e.unsupported("call of non-function value")
	}
	return e.callFuncV(fv, args)
}

func (e *Engine) invoke(recv Iface, m *types.Func, args []Value) Value {
	if n, ok := recv.typ.(*types.Named); ok && n.Obj().Pkg() != nil && n.Obj().Pkg().Path() == "gosym" {
		return e.callStub("gosym."+n.Obj().Name()+"."+m.Name(), recv.val, args)
	}
	fn := e.prog.LookupMethod(recv.typ, m.Pkg(), m.Name())
	if fn == nil {
		e.unsupported(fmt.Sprintf("method %s not found on %s", m.Name(), recv.typ))
	}
	return e.callStatic(fn, append([]Value{recv.val}, args...))
}

func fnKey(fn *ssa.Function) string {
	if o := fn.Origin(); o != nil {
		return o.String()
	}
	return fn.String()
}

func (e *Engine) callStatic(fn *ssa.Function, args []Value) Value {
	name := fnKey(fn)
	if fn.Pkg == e.cose && fn.Signature.Recv() == nil && isAPIName(fn.Name()) {
		if r, ok := e.harnessAPI(fn.Name(), args, fn); ok {
			return r
		}
	}
	if e.hasStub(name) {
		e.res.stubs[name] = true
		return e.callStub(name, nil, args)
	}
	if fn.Pkg != nil && fn.Pkg != e.cose && strings.HasSuffix(name, ".init") {
		return nil // dependency initialisers are skipped
	}
	if fn.Pkg == e.cose || fn.Pkg == nil || interpAllowed(name) || (fn.Parent() != nil && fn.Parent().Pkg == e.cose) {
		if len(fn.FreeVars) > 0 {
			e.unsupported("static call of closure")
		}
		return e.callFunction(fn, args)
	}
	e.unsupported("un-stubbed external callee: " + name)
	return nil
}

func isAPIName(n string) bool {
	up := func(c byte) bool { return c >= 'A' && c <= 'Z' }
	switch {
	case len(n) > 2 && n[0] == 'n' && n[1] == 'n' && up(n[2]):
		return true
	case len(n) > 1 && (n[0] == 'v' || n[0] == 'n') && up(n[1]):
		return true
	}
	return false
}

func interpAllowed(name string) bool {
	switch name {
	case "errors.New", "(*errors.errorString).Error",
		"(*crypto/ecdsa.PrivateKey).Public", "(crypto/ed25519.PrivateKey).Public", "(*crypto/rsa.PrivateKey).Public",
		"(*crypto/ed25519.PrivateKey).Public", "(*crypto/rsa.PublicKey).Size", "(*crypto/rsa.PSSOptions).HashFunc", "(*crypto/rsa.PSSOptions).saltLength",
		"(encoding/binary.bigEndian).PutUint16", "(encoding/binary.bigEndian).PutUint32", "(encoding/binary.bigEndian).PutUint64",
		"(encoding/binary.bigEndian).AppendUint16", "(encoding/binary.bigEndian).AppendUint32", "(encoding/binary.bigEndian).AppendUint64",
		"(encoding/binary.littleEndian).AppendUint16", "(encoding/binary.littleEndian).AppendUint32", "(encoding/binary.littleEndian).AppendUint64",
		"(encoding/binary.bigEndian).Uint16", "(encoding/binary.bigEndian).Uint32", "(encoding/binary.bigEndian).Uint64",
		"(encoding/binary.littleEndian).PutUint16", "(encoding/binary.littleEndian).PutUint32", "(encoding/binary.littleEndian).PutUint64",
		"(encoding/binary.littleEndian).Uint16", "(encoding/binary.littleEndian).Uint32", "(encoding/binary.littleEndian).Uint64":
		return true
	}
	return false
}

func (e *Engine) builtin(name string, args []Value, c *ssa.CallCommon) Value {
	switch name {
	case "len":
		switch x := args[0].(type) {
		case StrV:
			return e.ropeLen(x.r)
		case BytesV:
			return x.n
		case SliceV:
			return e.c64(uint64(x.n))
		case MapV:
			if x.obj == nil {
				return e.c64(0)
			}
			return e.c64(uint64(len(x.obj.entries)))
		case *ArrayV:
			return e.c64(uint64(len(x.elems)))
		}
	case "cap":
		switch x := args[0].(type) {
		case BytesV:
			return x.cap
		case SliceV:
			return e.c64(uint64(x.cap))
		}
	case "append":
		return e.appendOp(args[0], args[1])
	case "copy":
		return e.copyOp(args[0], args[1])
	case "delete":
		e.mapDelete(args[0].(MapV), args[1])
		return nil
	case "recover":
		// valid only inside a function deferred directly by a panicking frame
		if len(e.panicFrames) > 0 {
			pf := e.panicFrames[len(e.panicFrames)-1]
			if pf.panicking != nil {
				gp := pf.panicking
				pf.panicking = nil
				if gp.val != nil {
					return gp.val
				}
				return Iface{typ: e.fake("err"), val: PtrV{cell: e.newCell(ErrV{text: gp.msg}, "runtime error")}}
			}
		}
		return Iface{}
	case "ssa:wrapnilchk":
		if p, ok := args[0].(PtrV); ok && p.isNil() {
			e.goPanic("value method called using nil pointer")
		}
		return args[0]
	case "print", "println":
		return nil
	case "min", "max":
		a, b := args[0].(*Term), args[1].(*Term)
		_, s, _ := intWidth(c.Args[0].Type())
		op := "bvult"
		if s {
			op = "bvslt"
		}
		lt := e.tt.Cmp(op, a, b)
		if name == "min" {
			return e.tt.Ite(lt, a, b)
		}
		return e.tt.Ite(lt, b, a)
	}
	e.unsupported(fmt.Sprintf("builtin %s on %T", name, args[0]))
	return nil
}

func (e *Engine) appendOp(a, b Value) Value {
	switch x := a.(type) {
	case BytesV:
		var add Rope
		switch y := b.(type) {
		case BytesV:
			add = e.bytesRope(y)
		case StrV:
			add = y.r
		}
		addLen := e.ropeLen(add)
		if addLen.isConst() && addLen.u64() == 0 {
			return x
		}
		newLen := e.tt.Bin("bvadd", x.n, addLen)
		if x.obj != nil && e.branch(e.tt.Cmp("bvule", newLen, x.cap)) {
			// in place
			e.noteWrite(x.obj.epoch, "append-in-place", x.obj.id, x.obj.tag)
			x.obj.rope = e.ropeReplace(x.obj.rope, e.tt.Bin("bvadd", x.off, x.n), addLen, add)
			return BytesV{obj: x.obj, off: x.off, n: newLen, cap: x.cap}
		}
		r := ropeConcat(e.bytesRope(x), add)
		o := e.newBytesObj(r, newLen)
		return BytesV{obj: o, off: e.c64(0), n: newLen, cap: newLen}
	case SliceV:
		y := b.(SliceV)
		if y.n == 0 {
			return x
		}
		if x.obj != nil && x.n+y.n <= x.cap {
			e.noteWrite(x.obj.epoch, "append-in-place", x.obj.id, "")
			for i := 0; i < y.n; i++ {
				x.obj.elems[x.off+x.n+i] = y.obj.elems[y.off+i]
			}
			return SliceV{obj: x.obj, off: x.off, n: x.n + y.n, cap: x.cap}
		}
		elems := make([]Value, 0, x.n+y.n)
		if x.obj != nil {
			elems = append(elems, x.obj.elems[x.off:x.off+x.n]...)
		}
		elems = append(elems, y.obj.elems[y.off:y.off+y.n]...)
		return SliceV{obj: e.newArrObj(elems), off: 0, n: len(elems), cap: len(elems)}
	}
	e.unsupported(fmt.Sprintf("append on %T", a))
	return nil
}

func (e *Engine) copyOp(dst, src Value) Value {
	switch d := dst.(type) {
	case BytesV:
		var sr Rope
		switch s := src.(type) {
		case BytesV:
			sr = e.bytesRope(s)
		case StrV:
			sr = s.r
		}
		sl := e.ropeLen(sr)
		n := sl
		if !e.branch(e.tt.Cmp("bvule", sl, d.n)) {
			n = d.n
			sr = e.ropeSlice(sr, e.c64(0), n)
		}
		if n.isConst() && n.u64() == 0 {
			return n
		}
		e.noteWrite(d.obj.epoch, "copy", d.obj.id, d.obj.tag)
		d.obj.rope = e.ropeReplace(d.obj.rope, d.off, n, sr)
		return n
	case SliceV:
		s := src.(SliceV)
		n := s.n
		if d.n < n {
			n = d.n
		}
		if n > 0 {
			e.noteWrite(d.obj.epoch, "copy", d.obj.id, "")
		}
		tmp := append([]Value{}, s.obj.elems[s.off:s.off+n]...)
		copy(d.obj.elems[d.off:d.off+n], tmp)
		return e.c64(uint64(n))
	}
	e.unsupported(fmt.Sprintf("copy on %T", dst))
	return nil
}

func (e *Engine) fake(name string) *types.Named {
	e.Program.mu.Lock()
	defer e.Program.mu.Unlock()
	if t, ok := e.fakeTyp[name]; ok {
		return t
	}
	pkg := types.NewPackage("gosym", "gosym")
	tn := types.NewTypeName(token.NoPos, pkg, name, nil)
	t := types.NewNamed(tn, types.NewStruct(nil, nil), nil)
	e.fakeTyp[name] = t
	return t
}
