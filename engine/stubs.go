package main

// Environment models for everything outside package cose (DESIGN.md §4).

import (
	"bytes"
	"encoding/asn1"
	"crypto/elliptic"
	"fmt"
	"go/types"
	"math/big"
	"sort"
	"strings"
)

type PrimCall struct {
	Kind   string // ecdsa.sign, ecdsa.verify, rsa.sign, rsa.verify, ed.sign, ed.verify, hash
	Key    string
	Hash   *Term
	DataID *Term
	KC, KX, KY *Term
	Data   string // structural key of digest / message
	DataRope Rope
	Sig    string
	R, S   *Term
	Result *Term
	Salt   *Term
}

type hashState struct {
	h    *Term
	data Rope
}

type bufState struct{ b BytesV }

type encState struct {
	opts *StructV
	w    Iface
}

func (e *Engine) bufOf(v Value) *bufState {
	p, ok := v.(PtrV)
	if !ok || p.isNil() {
		e.goPanic("nil *bytes.Buffer")
	}
	if o, ok := p.cell.val.(OpaqueV); ok {
		return o.data.(*bufState)
	}
	// the zero Buffer (new(bytes.Buffer), var b bytes.Buffer): an empty buffer ready to use
	st := &bufState{b: BytesV{off: e.c64(0), n: e.c64(0), cap: e.c64(0)}}
	p.cell.val = OpaqueV{kind: "bytes.Buffer", data: st}
	return st
}

type asn1Sig struct {
	r, s PtrV
}

var stubNames = map[string]bool{}

func init() {
	for _, n := range []string{
		"fmt.Errorf", "fmt.Sprint", "fmt.Sprintf", "strconv.FormatInt", "strconv.Itoa",
		"errors.Is", "errors.Unwrap",
		"bytes.HasPrefix", "bytes.Equal", "strings.Count",
		"reflect.DeepEqual", "reflect.TypeOf", "reflect.ValueOf", "(reflect.Value).Kind", "(reflect.Value).CanInt", "(reflect.Value).CanUint",
		"(reflect.Value).Int", "(reflect.Value).Uint", "(reflect.Value).String", "(reflect.Value).Bool", "(reflect.Value).Bytes",
		"maps.Clone",
		"crypto/elliptic.P256", "crypto/elliptic.P384", "crypto/elliptic.P521", "crypto/elliptic.P224",
		"(*math/big.Int).SetBytes", "(*math/big.Int).Bytes", "(*math/big.Int).BitLen", "(*math/big.Int).Sign",
		"(*math/big.Int).FillBytes", "(*math/big.Int).Cmp", "math/big.NewInt", "(*math/big.Int).Neg", "(*math/big.Int).SetInt64",
		"(*math/big.Int).Set",
		"(crypto.Hash).Available", "(crypto.Hash).New", "(crypto.Hash).Size", "(crypto.Hash).HashFunc",
		"crypto/ecdsa.Sign", "crypto/ecdsa.Verify", "crypto/ecdsa.SignASN1", "(*crypto/ecdsa.PrivateKey).Sign",
		"(*crypto/ecdsa.PublicKey).ECDH", "(*crypto/ecdsa.PrivateKey).ECDH", "(*crypto/ecdh.PrivateKey).PublicKey",
		"(*crypto/ecdh.PublicKey).Bytes", "(*crypto/ecdh.PrivateKey).Bytes", "bytes.TrimLeft",
		"(*sync.Pool).Get", "(*sync.Pool).Put",
		"crypto/rsa.VerifyPSS", "(*crypto/rsa.PrivateKey).Sign",
		"crypto/ed25519.Verify", "crypto/ed25519.NewKeyFromSeed", "(crypto/ed25519.PrivateKey).Sign",
		"encoding/asn1.Unmarshal", "encoding/asn1.Marshal",
		"(github.com/fxamacker/cbor/v2.EncOptions).EncMode", "(github.com/fxamacker/cbor/v2.DecOptions).DecMode",
		"bytes.NewBuffer", "(*bytes.Buffer).Bytes", "(*bytes.Buffer).Write", "(*bytes.Buffer).Len", "(*bytes.Buffer).WriteByte",
		"(*bytes.Buffer).Reset", "(*bytes.Buffer).Grow",
		"crypto/sha256.New", "crypto/sha512.New", "crypto/sha512.New384",
		"io.MultiReader", "io.LimitReader", "io.TeeReader", "bufio.NewReader", "bufio.NewReaderSize",
		"(*github.com/fxamacker/cbor/v2.Encoder).Encode",
	} {
		stubNames[n] = true
	}
}

func (e *Engine) hasStub(name string) bool { return stubNames[name] }

func (e *Engine) mkErr(text string, wraps ...Value) Iface {
	where := ""
	if e.curInstr != nil {
		where = fmt.Sprintf(" [%s @ %s]", e.curInstr.Parent(), e.prog.Fset.Position(e.curInstr.Pos()))
	}
	e.errLog = append(e.errLog, text+where)
	if len(e.errLog) > 4 {
		e.errLog = e.errLog[len(e.errLog)-4:]
	}
	return Iface{typ: e.fake("err"), val: PtrV{cell: e.newCell(ErrV{text: text, wraps: wraps}, "err:"+text)}}
}

func (e *Engine) strLit(s string) StrV { return StrV{ropeLit([]byte(s))} }

func (e *Engine) concreteString(v Value) (string, bool) {
	s, ok := v.(StrV)
	if !ok {
		return "", false
	}
	b, ok := ropeConcrete(s.r)
	return string(b), ok
}

// ropeKey gives a structural identity for a rope.
func (e *Engine) ropeKey(r Rope) string {
	var sb strings.Builder
	for _, s := range r {
		switch x := s.(type) {
		case SegLit:
			fmt.Fprintf(&sb, "L%x;", x.b)
		case SegSym:
			fmt.Fprintf(&sb, "S%d;", x.t.id)
		case SegBlob:
			fmt.Fprintf(&sb, "B%d,%d,%d;", x.arr.id, x.off.id, x.n.id)
		case SegZero:
			fmt.Fprintf(&sb, "Z%d;", x.n.id)
		case SegIntBE:
			fmt.Fprintf(&sb, "I%d,%d;", x.x.id, x.n.id)
		case SegHead:
			fmt.Fprintf(&sb, "H%s;", e.nodeKey(x.node, true))
		case SegItem:
			fmt.Fprintf(&sb, "N%s;", e.nodeKey(x.node, false))
		}
	}
	return sb.String()
}

func (e *Engine) nodeKey(n *Node, headOnly bool) string {
	if n.major < 0 {
		return "raw(" + e.ropeKey(n.raw) + ")"
	}
	var sb strings.Builder
	w := -1
	if n.wvar != nil {
		w = n.wvar.id
	}
	ng := -1
	if n.neg != nil {
		ng = n.neg.id
	}
	fmt.Fprintf(&sb, "%d:%d:%d:%v:%d", n.major, n.arg.id, w, n.indef, ng)
	if headOnly {
		return sb.String()
	}
	switch n.major {
	case 2, 3:
		sb.WriteString("[" + e.ropeKey(n.content) + "]")
	case 4, 5, 6:
		e.resolveOrder(n)
		sb.WriteString("(")
		for _, k := range n.kids {
			sb.WriteString(e.nodeKey(k, false) + ",")
		}
		sb.WriteString(")")
	}
	return sb.String()
}

func (e *Engine) intern(kind, key string) *Term {
	// an interned identity constant: distinct keys give distinct 64-bit constants
	h := uint64(1469598103934665603)
	for i := 0; i < len(key); i++ {
		h ^= uint64(key[i])
		h *= 1099511628211
	}
	for i := 0; i < len(kind); i++ {
		h ^= uint64(kind[i])
		h *= 1099511628211
	}
	return e.c64(h)
}

func (e *Engine) bigOf(v Value) (BigV, PtrV) {
	p, ok := v.(PtrV)
	if !ok || p.isNil() {
		e.goPanic("runtime error: invalid memory address or nil pointer dereference (nil *big.Int)")
	}
	b, ok := e.load(p).(BigV)
	if !ok {
		e.unsupported("big.Int cell does not hold BigV")
	}
	return b, p
}

func (e *Engine) newBig(mag *Term, neg *Term) PtrV {
	return PtrV{cell: e.newCell(BigV{mag: mag, neg: neg}, "big.Int")}
}

func (e *Engine) unify(a, b *Term) (*Term, *Term) {
	w := a.w
	if b.w > w {
		w = b.w
	}
	return e.tt.ZExt(a, w), e.tt.ZExt(b, w)
}

// bitLen as a 64-bit term.
func (e *Engine) bitLen(x *Term) *Term { return e.tt.BitLen(x) }

// ropeToBig converts big-endian bytes to an integer term.
func (e *Engine) ropeToBig(r Rope) *Term {
	tt := e.tt
	total := e.ropeLen(r)
	if tv, ok := e.uniqueValue(total); ok {
		n := int(tv)
		if n == 0 {
			return tt.BVu(0, 8)
		}
		if n > 1024 {
			e.unsupported("SetBytes on > 1024 bytes")
		}
		var acc *Term
		push := func(b *Term) {
			if acc == nil {
				acc = b
			} else {
				acc = tt.Concat(acc, b)
			}
		}
		for _, s := range r {
			switch x := s.(type) {
			case SegLit:
				for _, b := range x.b {
					push(tt.BVu(uint64(b), 8))
				}
			case SegSym:
				push(x.t)
			case SegBlob:
				k, ok := e.uniqueValue(x.n)
				if !ok {
					e.unsupported("SetBytes: blob length not concrete though total is")
				}
				for i := uint64(0); i < k; i++ {
					push(tt.Select(x.arr, tt.Bin("bvadd", x.off, e.c64(i))))
				}
			case SegZero:
				k, ok := e.uniqueValue(x.n)
				if !ok {
					return e.ropeToBigSym(r)
				}
				if k > 0 {
					push(tt.BVu(0, int(8*k)))
				}
			case SegIntBE:
				k, ok := e.uniqueValue(x.n)
				if !ok {
					return e.ropeToBigSym(r)
				}
				for i := int(k) - 1; i >= 0; i-- {
					push(e.byteOf(x.x, i))
				}
			default:
				u := e.unfoldSeg(s)
				return e.ropeToBig(append(append(Rope{}, u...), r[1:]...))
			}
		}
		if acc == nil {
			return tt.BVu(0, 8)
		}
		return acc
	}
	return e.ropeToBigSym(r)
}

func (e *Engine) ropeToBigSym(r Rope) *Term {
	tt := e.tt
	total := e.ropeLen(r)
	bigW := 544 // working width for symbolic-length conversions (68 bytes)
	if !e.mustBe(tt.Cmp("bvule", total, e.c64(68))) {
		bigW = 1184
		if e.branch(tt.Cmp("bvugt", total, e.c64(148))) {
			e.unsupported("SetBytes on symbolic-length input that may exceed 148 bytes")
		}
	}
	acc := tt.BVu(0, bigW)
	for _, s := range r {
		l := e.segLen(s)
		sh := tt.ZExt(tt.Extract(tt.Bin("bvshl", l, e.c64(3)), 15, 0), bigW) // 8*len as bigW-bit
		var val *Term
		switch x := s.(type) {
		case SegLit:
			v := new(big.Int).SetBytes(x.b)
			val = tt.BV(v, bigW)
		case SegSym:
			val = tt.ZExt(x.t, bigW)
		case SegZero:
			val = tt.BVu(0, bigW)
		case SegIntBE:
			// low n bytes of x
			if x.x.w > bigW {
				e.unsupported("IntBE wider than working width")
			}
			xx := tt.ZExt(x.x, bigW)
			if x.n.op == "bytelen" && x.n.args[0] == x.x {
				val = xx // minimal big-endian form holds all of x
			} else {
				m := tt.Bin("bvsub", tt.Bin("bvshl", tt.BVu(1, bigW), sh), tt.BVu(1, bigW))
				val = tt.Bin("bvand", xx, m)
			}
		case SegBlob:
			val = tt.UF(fmt.Sprintf("os2ip%d", bigW), bigW, x.arr, x.off, x.n)
		default:
			u := e.unfoldSeg(s)
			return e.ropeToBigSym(append(append(Rope{}, u...), r[1:]...))
		}
		acc = tt.Bin("bvor", tt.Bin("bvshl", acc, sh), val)
	}
	return acc
}

// fit528 splits a magnitude into (fits in 528 bits, low 528 bits).
func (e *Engine) fit528(m *Term) (*Term, *Term) {
	if m.w <= 528 {
		return e.tt.Bool(true), e.tt.ZExt(m, 528)
	}
	hi := e.tt.Extract(m, m.w-1, 528)
	return e.tt.Eq(hi, e.tt.BVu(0, hi.w)), e.tt.Extract(m, 527, 0)
}

func (e *Engine) curveValue(name string) Iface {
	return Iface{typ: e.fake("curve"), val: OpaqueV{kind: "curve", data: name}}
}

func realCurve(name string) elliptic.Curve {
	switch name {
	case "P-256":
		return elliptic.P256()
	case "P-384":
		return elliptic.P384()
	case "P-521":
		return elliptic.P521()
	case "P-224":
		return elliptic.P224()
	}
	return nil
}

func (e *Engine) bigConst(v *big.Int) PtrV {
	w := (v.BitLen() + 7) / 8 * 8
	if w == 0 {
		w = 8
	}
	c := e.newBig(e.tt.BV(v, w), e.tt.Bool(false))
	c.cell.epoch = 0
	return c
}

func (e *Engine) curveParams(name string) PtrV {
	p := realCurve(name).Params()
	sv := &StructV{fields: []Value{
		e.bigConst(p.P), e.bigConst(p.N), e.bigConst(p.B), e.bigConst(p.Gx), e.bigConst(p.Gy),
		e.tt.BVi(int64(p.BitSize), 64), e.strLit(p.Name),
	}}
	c := e.newCell(sv, "CurveParams:"+name)
	c.epoch = 0
	return PtrV{cell: c}
}

func curveNameOf(v Value) string {
	ifc, ok := v.(Iface)
	if !ok || ifc.typ == nil {
		return ""
	}
	o, ok := ifc.val.(OpaqueV)
	if !ok || o.kind != "curve" {
		return ""
	}
	return o.data.(string)
}

// pubKeyID gives a structural identity of an *ecdsa.PublicKey value (struct Curve,X,Y).
// ecKeyTerms: the semantic identity of an EC public key: (curve id, X, Y) as 64 / 528 / 528-bit terms
type ecdhPoint struct {
	curve string
	x, y  *Term
}

func (e *Engine) ecKeyTerms(pub *StructV) (*Term, *Term, *Term) {
	cn := curveNameOf(pub.fields[0])
	x, _ := e.bigOf(pub.fields[1])
	y, _ := e.bigOf(pub.fields[2])
	_, xm := e.fit528(x.mag)
	_, ym := e.fit528(y.mag)
	return e.intern("curve", cn), xm, ym
}

func (e *Engine) ecPubID(pub *StructV) string {
	cn := curveNameOf(pub.fields[0])
	x, _ := e.bigOf(pub.fields[1])
	y, _ := e.bigOf(pub.fields[2])
	return fmt.Sprintf("ec:%s:%d:%d", cn, x.mag.id, y.mag.id)
}

func (e *Engine) reflectKind(ifc Iface) uint64 {
	if ifc.typ == nil {
		return 0
	}
	switch u := ifc.typ.Underlying().(type) {
	case *types.Basic:
		switch u.Kind() {
		case types.Bool:
			return 1
		case types.Int:
			return 2
		case types.Int8:
			return 3
		case types.Int16:
			return 4
		case types.Int32:
			return 5
		case types.Int64:
			return 6
		case types.Uint:
			return 7
		case types.Uint8:
			return 8
		case types.Uint16:
			return 9
		case types.Uint32:
			return 10
		case types.Uint64:
			return 11
		case types.Uintptr:
			return 12
		case types.Float32:
			return 13
		case types.Float64:
			return 14
		case types.String:
			return 24
		}
	case *types.Array:
		return 17
	case *types.Chan:
		return 18
	case *types.Signature:
		return 19
	case *types.Interface:
		return 20
	case *types.Map:
		return 21
	case *types.Pointer:
		return 22
	case *types.Slice:
		return 23
	case *types.Struct:
		return 25
	}
	return 0
}

func (e *Engine) callStub(name string, recv Value, args []Value) Value {
	tt := e.tt
	e.res.stubs[name] = true
	switch name {
	// ---- fmt / strconv / errors -------------------------------------------------
	case "fmt.Errorf":
		format, _ := e.concreteString(args[0])
		va := args[1].(SliceV)
		var wraps []Value
		// find %w verbs
		ai := 0
		for i := 0; i < len(format); i++ {
			if format[i] != '%' {
				continue
			}
			i++
			for i < len(format) && strings.ContainsRune("+-# 0123456789.[]*", rune(format[i])) {
				i++
			}
			if i >= len(format) {
				break
			}
			if format[i] == '%' {
				continue
			}
			if format[i] == 'w' && ai < va.n {
				if ifc, ok := va.obj.elems[va.off+ai].(Iface); ok && ifc.typ != nil {
					wraps = append(wraps, ifc)
				}
			}
			ai++
		}
		return e.mkErr(format, wraps...)
	case "fmt.Sprint", "fmt.Sprintf":
		return e.strLit("<fmt>")
	case "strconv.FormatInt", "strconv.Itoa":
		return e.strLit("<int>")
	case "errors.Is":
		return tt.Bool(e.errorsIs(args[0].(Iface), args[1].(Iface), 0))
	case "errors.Unwrap":
		ifc := args[0].(Iface)
		if p, ok := ifc.val.(PtrV); ok && p.cell != nil {
			if ev, ok := p.cell.val.(ErrV); ok && len(ev.wraps) == 1 {
				return ev.wraps[0]
			}
		}
		return Iface{}
	case "gosym.err.Error":
		ev := recv.(PtrV).cell.val.(ErrV)
		return e.strLit(ev.text)
	case "gosym.err.Unwrap":
		ev := recv.(PtrV).cell.val.(ErrV)
		if len(ev.wraps) > 0 {
			return ev.wraps[0]
		}
		return Iface{}

	// ---- bytes / strings ------------------------------------------------------------
	case "bytes.HasPrefix":
		s, p := e.bytesRope(args[0].(BytesV)), e.bytesRope(args[1].(BytesV))
		ls, lp := e.ropeLen(s), e.ropeLen(p)
		if !e.branch(tt.Cmp("bvule", lp, ls)) {
			return tt.Bool(false)
		}
		if pb, ok := ropeConcrete(p); ok && len(pb) <= 8 {
			// short literal prefix: compare byte by byte without restructuring s
			var conj []*Term
			for i, b := range pb {
				conj = append(conj, tt.Eq(e.ropeIndex(s, e.c64(uint64(i))), tt.BVu(uint64(b), 8)))
			}
			return tt.And(conj...)
		}
		return e.ropeEq(e.ropeSlice(s, e.c64(0), lp), p)
	case "bytes.Equal":
		return e.ropeEq(e.bytesRope(args[0].(BytesV)), e.bytesRope(args[1].(BytesV)))
	case "strings.Count":
		sub, ok := e.concreteString(args[1])
		if !ok || len(sub) != 1 {
			e.unsupported("strings.Count with non single-byte pattern")
		}
		cnt := e.c64(0)
		for _, s := range args[0].(StrV).r {
			switch x := s.(type) {
			case SegLit:
				cnt = tt.Bin("bvadd", cnt, e.c64(uint64(strings.Count(string(x.b), sub))))
			case SegSym:
				cnt = tt.Bin("bvadd", cnt, tt.Ite(tt.Eq(x.t, tt.BVu(uint64(sub[0]), 8)), e.c64(1), e.c64(0)))
			case SegBlob:
				cnt = tt.Bin("bvadd", cnt, tt.UF("count", 64, x.arr, x.off, x.n, tt.BVu(uint64(sub[0]), 8)))
			default:
				e.unsupported("strings.Count on folded rope")
			}
		}
		return cnt

	// ---- reflect ----------------------------------------------------------------------
	case "reflect.ValueOf":
		return OpaqueV{kind: "reflect", data: args[0].(Iface)}
	case "reflect.DeepEqual":
		return e.deepEqual(args[0], args[1], 0)
	case "reflect.TypeOf":
		ifc := args[0].(Iface)
		if ifc.typ == nil {
			return Iface{}
		}
		return Iface{typ: e.fake("rtype"), val: OpaqueV{kind: "rtype", data: ifc.typ}}
	case "gosym.rtype.Kind":
		return e.c64(e.reflectKind(Iface{typ: recv.(OpaqueV).data.(types.Type)}))
	case "gosym.rtype.Elem":
		var el types.Type
		switch u := recv.(OpaqueV).data.(types.Type).Underlying().(type) {
		case *types.Slice:
			el = u.Elem()
		case *types.Array:
			el = u.Elem()
		case *types.Pointer:
			el = u.Elem()
		case *types.Map:
			el = u.Elem()
		case *types.Chan:
			el = u.Elem()
		default:
			e.goPanic("reflect: Elem of invalid type")
		}
		return Iface{typ: e.fake("rtype"), val: OpaqueV{kind: "rtype", data: el}}
	case "(reflect.Value).Kind":
		return e.c64(e.reflectKind(args[0].(OpaqueV).data.(Iface)))
	case "(reflect.Value).CanInt":
		k := e.reflectKind(args[0].(OpaqueV).data.(Iface))
		return tt.Bool(k >= 2 && k <= 6)
	case "(reflect.Value).CanUint":
		k := e.reflectKind(args[0].(OpaqueV).data.(Iface))
		return tt.Bool(k >= 7 && k <= 12)
	case "(reflect.Value).Int":
		ifc := args[0].(OpaqueV).data.(Iface)
		k := e.reflectKind(ifc)
		if k < 2 || k > 6 {
			e.goPanic("reflect: call of reflect.Value.Int on non-int Value")
		}
		return tt.SExt(ifc.val.(*Term), 64)
	case "(reflect.Value).Uint":
		ifc := args[0].(OpaqueV).data.(Iface)
		k := e.reflectKind(ifc)
		if k < 7 || k > 12 {
			e.goPanic("reflect: call of reflect.Value.Uint on non-uint Value")
		}
		return tt.ZExt(ifc.val.(*Term), 64)
	case "(reflect.Value).String":
		ifc := args[0].(OpaqueV).data.(Iface)
		if e.reflectKind(ifc) != 24 {
			return e.strLit("<T Value>")
		}
		return ifc.val
	case "(reflect.Value).Bool":
		ifc := args[0].(OpaqueV).data.(Iface)
		if e.reflectKind(ifc) != 1 {
			e.goPanic("reflect: call of reflect.Value.Bool on non-bool Value")
		}
		return ifc.val
	case "(reflect.Value).Bytes":
		ifc := args[0].(OpaqueV).data.(Iface)
		if ifc.typ != nil && isByteSlice(ifc.typ) {
			return ifc.val
		}
		e.goPanic("reflect: call of reflect.Value.Bytes on non-byte-slice Value")

	case "maps.Clone":
		m := args[0].(MapV)
		if m.obj == nil {
			return MapV{}
		}
		n := e.newMapObj()
		n.entries = append(n.entries, m.obj.entries...)
		return MapV{obj: n}

	// ---- elliptic / big --------------------------------------------------------------------
	case "crypto/elliptic.P256":
		return e.curveValue("P-256")
	case "crypto/elliptic.P384":
		return e.curveValue("P-384")
	case "crypto/elliptic.P521":
		return e.curveValue("P-521")
	case "crypto/elliptic.P224":
		return e.curveValue("P-224")
	case "gosym.curve.Params":
		return e.curveParams(recv.(OpaqueV).data.(string))
	case "math/big.NewInt":
		v := args[0].(*Term)
		neg := tt.Cmp("bvslt", v, e.c64(0))
		return e.newBig(tt.Ite(neg, tt.BVNeg(v), v), neg)
	case "(*math/big.Int).SetInt64":
		_, p := e.bigOf(args[0])
		v := args[1].(*Term)
		neg := tt.Cmp("bvslt", v, e.c64(0))
		e.store(p, BigV{mag: tt.Ite(neg, tt.BVNeg(v), v), neg: neg})
		return p
	case "(*math/big.Int).Set":
		_, p := e.bigOf(args[0])
		y, _ := e.bigOf(args[1])
		e.store(p, y)
		return p
	case "(*math/big.Int).Neg":
		_, p := e.bigOf(args[0])
		y, _ := e.bigOf(args[1])
		isZero := tt.Eq(y.mag, tt.BVu(0, y.mag.w))
		e.store(p, BigV{mag: y.mag, neg: tt.And(tt.Not(y.neg), tt.Not(isZero))})
		return p
	case "(*math/big.Int).SetBytes":
		_, p := e.bigOf(args[0])
		rp := e.bytesRope(args[1].(BytesV))
		mag := e.ropeToBig(rp)
		// canonicalise: bytes that are provably the big-endian form of a known integer give that integer back
		// (keeps later obligations syntactic instead of re-deriving the padding argument inside bigger formulas)
		if !mag.isConst() {
			for _, sg := range rp {
				ib, ok := sg.(SegIntBE)
				if !ok {
					continue
				}
				a, b := e.unify(mag, ib.x)
				if a == b {
					break
				}
				if e.mustBe(tt.Eq(a, b)) {
					mag = ib.x
					break
				}
			}
		}
		e.store(p, BigV{mag: mag, neg: tt.Bool(false)})
		return p
	case "(*math/big.Int).Bytes":
		b, _ := e.bigOf(args[0])
		n := tt.ByteLen(b.mag)
		if b.mag.isConst() {
			return e.bytesFromRope(ropeLit(b.mag.val.Bytes()))
		}
		x := b.mag
		for x.op == "zext" {
			x = x.args[0] // same value; keeps IntBE(x, bytelen(x)) recognisable
		}
		return e.bytesFromRope(Rope{SegIntBE{x, n}})
	case "(*math/big.Int).BitLen":
		b, _ := e.bigOf(args[0])
		if b.bl != nil {
			return b.bl
		}
		return e.bitLen(b.mag)
	case "(*math/big.Int).Sign":
		b, _ := e.bigOf(args[0])
		isZero := tt.Eq(b.mag, tt.BVu(0, b.mag.w))
		return tt.Ite(isZero, e.c64(0), tt.Ite(b.neg, tt.BVi(-1, 64), e.c64(1)))
	case "(*math/big.Int).Cmp":
		x, _ := e.bigOf(args[0])
		y, _ := e.bigOf(args[1])
		xm, ym := e.unify(x.mag, y.mag)
		xz, yz := tt.Eq(xm, tt.BVu(0, xm.w)), tt.Eq(ym, tt.BVu(0, ym.w))
		xn, yn := tt.And(x.neg, tt.Not(xz)), tt.And(y.neg, tt.Not(yz))
		lt := tt.Cmp("bvult", xm, ym)
		eq := tt.Eq(xm, ym)
		m1, z, p1 := tt.BVi(-1, 64), e.c64(0), e.c64(1)
		bothPos := tt.Ite(eq, z, tt.Ite(lt, m1, p1))
		bothNeg := tt.Ite(eq, z, tt.Ite(lt, p1, m1))
		return tt.Ite(tt.And(xn, tt.Not(yn)), m1, tt.Ite(tt.And(tt.Not(xn), yn), p1, tt.Ite(xn, bothNeg, bothPos)))
	case "(*math/big.Int).FillBytes":
		b, _ := e.bigOf(args[0])
		buf := args[1].(BytesV)
		bl := e.bitLen(b.mag)
		if e.branch(tt.Cmp("bvugt", bl, tt.Bin("bvshl", buf.n, e.c64(3)))) {
			e.goPanic("math/big: buffer too small to fit value")
		}
		if buf.obj != nil && !(buf.n.isConst() && buf.n.u64() == 0) {
			e.noteWrite(buf.obj.epoch, "FillBytes", buf.obj.id, buf.obj.tag)
			buf.obj.rope = e.ropeReplace(buf.obj.rope, buf.off, buf.n, Rope{SegIntBE{b.mag, buf.n}})
		}
		return buf

	// ---- crypto.Hash ------------------------------------------------------------------------------
	case "(crypto.Hash).Available":
		h := args[0].(*Term)
		return tt.Or(tt.Eq(h, e.c64(5)), tt.Eq(h, e.c64(6)), tt.Eq(h, e.c64(7)))
	case "(crypto.Hash).HashFunc":
		return args[0]
	case "(crypto.Hash).Size":
		h := args[0].(*Term)
		k, ok := e.concretizeAmong(h, []uint64{5, 6, 7})
		if !ok {
			e.goPanic("crypto: Size of unknown hash function")
		}
		return e.c64(map[uint64]uint64{5: 32, 6: 48, 7: 64}[k])
	case "(crypto.Hash).New":
		h := args[0].(*Term)
		if _, ok := e.concretizeAmong(h, []uint64{5, 6, 7}); !ok {
			e.goPanic("crypto: requested hash function is unavailable")
		}
		return Iface{typ: e.fake("hash"), val: PtrV{cell: e.newCell(OpaqueV{kind: "hash", data: &hashState{h: h}}, "hash")}}
	case "crypto/sha256.New", "crypto/sha512.New384", "crypto/sha512.New":
		id := map[string]uint64{"crypto/sha256.New": 5, "crypto/sha512.New384": 6, "crypto/sha512.New": 7}[name]
		return Iface{typ: e.fake("hash"), val: PtrV{cell: e.newCell(OpaqueV{kind: "hash", data: &hashState{h: e.c64(id)}}, "hash")}}
	case "gosym.hash.Write":
		hs := recv.(PtrV).cell.val.(OpaqueV).data.(*hashState)
		b := args[0].(BytesV)
		hs.data = ropeConcat(hs.data, e.bytesRope(b))
		return TupleV{b.n, Iface{}}
	case "gosym.hash.Sum":
		hs := recv.(PtrV).cell.val.(OpaqueV).data.(*hashState)
		dig := e.hashOf(hs.h, hs.data)
		pre := args[0].(BytesV)
		if pre.obj == nil {
			return e.bytesFromRope(dig)
		}
		return e.appendOp(pre, e.bytesFromRope(dig)) // Sum appends (in place when the capacity allows)

	// ---- ecdsa ----------------------------------------------------------------------------------------
	case "crypto/ecdsa.Sign":
		priv := args[1].(PtrV)
		if ferr, failing := e.randFailure(args[0]); failing {
			return TupleV{PtrV{}, PtrV{}, ferr}
		}
		r, s, err := e.ecdsaSign(priv, args[2].(BytesV))
		return TupleV{r, s, err}
	case "(*crypto/ecdsa.PrivateKey).Sign", "crypto/ecdsa.SignASN1":
		var priv PtrV
		var dig BytesV
		var rd Value
		if name == "crypto/ecdsa.SignASN1" {
			rd, priv, dig = args[0], args[1].(PtrV), args[2].(BytesV)
		} else {
			priv, rd, dig = args[0].(PtrV), args[1], args[2].(BytesV)
		}
		if ferr, failing := e.randFailure(rd); failing {
			return TupleV{e.zero(types.NewSlice(types.Typ[types.Uint8])), ferr}
		}
		r, s, err := e.ecdsaSign(priv, dig)
		if err.typ != nil {
			return TupleV{e.zero(types.NewSlice(types.Typ[types.Uint8])), err}
		}
		return TupleV{e.asn1Blob(r, s), Iface{}}
	case "crypto/ecdsa.Verify":
		pub := e.load(args[0].(PtrV)).(*StructV)
		dig := e.bytesRope(args[1].(BytesV))
		r, _ := e.bigOf(args[2])
		s, _ := e.bigOf(args[3])
		keyID := e.ecPubID(pub)
		// real ecdsa.Verify rejects r,s outside [1,N-1] and negative values
		cn := curveNameOf(pub.fields[0])
		N := tt.BV(realCurve(cn).Params().N, 528)
		rFit, rm := e.fit528(r.mag)
		sFit, sm := e.fit528(s.mag)
		inRange := tt.And(rFit, sFit, tt.Not(r.neg), tt.Not(s.neg), tt.Ne(rm, tt.BVu(0, 528)), tt.Ne(sm, tt.BVu(0, 528)), tt.Cmp("bvult", rm, N), tt.Cmp("bvult", sm, N))
		kc, kx, ky := e.ecKeyTerms(pub)
		uf := tt.UF("V_ecdsa", 0, kc, kx, ky, e.canonID(dig), rm, sm)
		// correctness axiom made explicit for recorded signatures (helps the solver: no reliance on UF congruence over wide vectors)
		for _, rec := range e.signedLog {
			if rec.Kind == "ecdsa.sign" && rec.KC == kc && rec.DataID == e.canonID(dig) {
				uf = tt.Or(tt.And(tt.Eq(kx, rec.KX), tt.Eq(ky, rec.KY), tt.Eq(rm, rec.R), tt.Eq(sm, rec.S)), uf)
			}
		}
		v := tt.And(inRange, uf)
		e.primLog = append(e.primLog, &PrimCall{Kind: "ecdsa.verify", Key: keyID, Data: e.ropeKey(dig), DataRope: dig, R: rm, S: sm, Result: v})
		return v
	case "(*crypto/ecdsa.PublicKey).ECDH":
		pub := e.load(args[0].(PtrV)).(*StructV)
		cn := curveNameOf(pub.fields[0])
		if cn != "P-256" && cn != "P-384" && cn != "P-521" {
			return TupleV{PtrV{}, e.mkErr("ecdsa: unsupported curve by crypto/ecdh")}
		}
		kc, kx, ky := e.ecKeyTerms(pub)
		valid := tt.UF("onCurve", 0, kc, kx, ky)
		if !e.branch(valid) {
			return TupleV{PtrV{}, e.mkErr("ecdsa: invalid public key")}
		}
		return TupleV{PtrV{cell: e.newCell(OpaqueV{kind: "ecdh.PublicKey", data: ecdhPoint{cn, kx, ky}}, "ecdh")}, Iface{}}
	case "(*crypto/ecdsa.PrivateKey).ECDH":
		priv := e.load(args[0].(PtrV)).(*StructV)
		pub := priv.fields[0].(*StructV)
		cn := curveNameOf(pub.fields[0])
		if cn != "P-256" && cn != "P-384" && cn != "P-521" {
			return TupleV{PtrV{}, e.mkErr("ecdsa: unsupported curve by crypto/ecdh")}
		}
		d, _ := e.bigOf(priv.fields[1])
		okD, d528 := e.fit528(d.mag)
		N := tt.BV(realCurve(cn).Params().N, 528)
		if !e.branch(tt.And(okD, tt.Not(d.neg), tt.Ne(d528, tt.BVu(0, 528)), tt.Cmp("bvult", d528, N))) {
			return TupleV{PtrV{}, e.mkErr("ecdsa: invalid private key")}
		}
		kc := e.intern("curve", cn)
		return TupleV{PtrV{cell: e.newCell(OpaqueV{kind: "ecdh.PrivateKey", data: ecdhPoint{cn, tt.UF("pubX", 528, kc, d528), tt.UF("pubY", 528, kc, d528)}}, "ecdh")}, Iface{}}
	case "(*crypto/ecdh.PrivateKey).PublicKey":
		o := e.load(args[0].(PtrV)).(OpaqueV)
		return PtrV{cell: e.newCell(OpaqueV{kind: "ecdh.PublicKey", data: o.data}, "ecdh")}
	case "(*crypto/ecdh.PublicKey).Bytes":
		o := e.load(args[0].(PtrV)).(OpaqueV)
		pt, ok := o.data.(ecdhPoint)
		if !ok {
			e.unsupported("ecdh.PublicKey.Bytes of an unmodelled key")
		}
		size := e.c64(uint64((realCurve(pt.curve).Params().P.BitLen() + 7) / 8))
		return e.bytesFromRope(Rope{SegLit{[]byte{4}}, SegIntBE{pt.x, size}, SegIntBE{pt.y, size}})
	// ---- sync.Pool: an object handed back is shared with every concurrent caller --------------------------------
	case "(*sync.Pool).Get":
		poolCell := args[0].(PtrV).cell
		pool := e.load(args[0].(PtrV)).(*StructV)
		// an object handed back earlier on this goroutine comes out again (what the runtime does without an
		// intervening GC); the other possibility is a fresh one from New
		if st := e.poolStore[poolCell]; len(st) > 0 && e.choose(2) == 0 {
			v := st[len(st)-1]
			e.poolStore[poolCell] = st[:len(st)-1]
			if p, ok := v.val.(PtrV); ok {
				delete(e.pooled, p.cell)
			}
			return v
		}
		var newFn Value
		for _, f := range pool.fields {
			if fv, ok := f.(*FuncV); ok && fv != nil {
				newFn = fv
			}
		}
		if newFn == nil {
			return Iface{}
		}
		return e.callFuncV(newFn.(*FuncV), nil)
	case "(*sync.Pool).Put":
		if ifc, ok := args[1].(Iface); ok {
			if p, ok := ifc.val.(PtrV); ok && p.cell != nil {
				if e.pooled == nil {
					e.pooled = map[*Cell]bool{}
				}
				e.pooled[p.cell] = true
			}
			if e.poolStore == nil {
				e.poolStore = map[*Cell][]Iface{}
			}
			pc := args[0].(PtrV).cell
			e.poolStore[pc] = append(e.poolStore[pc], ifc)
		}
		return nil
	case "bytes.TrimLeft":
		cut, okc := e.concreteString(args[1])
		if !okc || cut != "\x00" {
			e.unsupported("bytes.TrimLeft with a cutset other than \"\\x00\"")
		}
		r := e.bytesRope(args[0].(BytesV))
		for len(r) > 0 {
			if _, z := r[0].(SegZero); z {
				r = r[1:]
				continue
			}
			break
		}
		if len(r) == 0 {
			return e.bytesFromRope(nil)
		}
		if b, ok := ropeConcrete(r); ok {
			return e.bytesFromRope(ropeLit(bytes.TrimLeft(b, "\x00")))
		}
		if ib, ok := r[0].(SegIntBE); ok && len(r) == 1 {
			// the low n bytes of x, without leading zero bytes
			nv, okn := e.uniqueValue(ib.n)
			if !okn || nv == 0 || nv > 66 {
				e.unsupported("bytes.TrimLeft of an integer of symbolic width")
			}
			x := ib.x
			if uint64(x.w) > 8*nv {
				x = tt.Extract(x, int(8*nv)-1, 0)
			}
			return e.bytesFromRope(Rope{SegIntBE{x, tt.ByteLen(x)}})
		}
		e.unsupported("bytes.TrimLeft of this rope shape")

	// ---- readers built around the entropy source: opaque, and - whatever they wrap - counted as working
	// (a wrapper may mask the failure of the reader inside; only the native replay decides)
	case "io.MultiReader", "io.LimitReader", "io.TeeReader", "bufio.NewReader", "bufio.NewReaderSize":
		return Iface{typ: e.fake("rand"), val: OpaqueV{kind: "rand-wrapped"}}

	// ---- rsa --------------------------------------------------------------------------------------------
	case "(*crypto/rsa.PrivateKey).Sign":
		priv := args[0].(PtrV)
		dig := e.bytesRope(args[2].(BytesV))
		opts := args[3].(Iface)
		if strings.HasSuffix(opts.typ.String(), "rsa.PSSOptions") {
			if ferr, failing := e.randFailure(args[1]); failing {
				return TupleV{e.zero(types.NewSlice(types.Typ[types.Uint8])), ferr}
			}
		}
		okv := e.envBool("rsa.Sign.ok")
		if e.forceOK {
			e.addPC(okv)
		}
		if !e.branch(okv) {
			e.envFailures++
			return TupleV{e.zero(types.NewSlice(types.Typ[types.Uint8])), e.mkErr("rsa: signing failed (injected)")}
		}
		var hashT, salt *Term
		if opts.typ != nil && strings.HasSuffix(opts.typ.String(), "rsa.PSSOptions") {
			ps := e.load(opts.val.(PtrV)).(*StructV)
			salt, hashT = ps.fields[0].(*Term), ps.fields[1].(*Term)
		} else {
			salt, hashT = e.c64(0xdead), e.c64(0xdead) // PKCS1v15 or other: never matches VerifyPSS
		}
		keyID := e.rsaPubID(e.load(priv).(*StructV).fields[0].(*StructV))
		e.hashCount++
		arr := tt.Var(fmt.Sprintf("rsasig%d", e.hashCount), sortArray)
		n := e.rsaSize(e.load(priv).(*StructV).fields[0].(*StructV))
		sig := Rope{SegBlob{arr, e.c64(0), n}}
		e.assume(tt.UF("V_rsa", 0, e.intern("key", keyID), hashT, salt, e.canonID(dig), e.canonID(sig)))
		e.signedLog = append(e.signedLog, &PrimCall{Kind: "rsa.sign", Key: keyID, Hash: hashT, Salt: salt, Data: e.ropeKey(dig), DataRope: dig, Sig: e.ropeKey(sig)})
		return TupleV{e.bytesFromRope(sig), Iface{}}
	case "crypto/rsa.VerifyPSS":
		pub := e.load(args[0].(PtrV)).(*StructV)
		hashT := args[1].(*Term)
		dig := e.bytesRope(args[2].(BytesV))
		sig := e.bytesRope(args[3].(BytesV))
		salt := e.c64(0)
		if p := args[4].(PtrV); !p.isNil() {
			salt = e.load(p).(*StructV).fields[0].(*Term)
		}
		keyID := e.rsaPubID(pub)
		v := tt.UF("V_rsa", 0, e.intern("key", keyID), hashT, salt, e.canonID(dig), e.canonID(sig))
		e.primLog = append(e.primLog, &PrimCall{Kind: "rsa.verify", Key: keyID, Hash: hashT, Salt: salt, Data: e.ropeKey(dig), DataRope: dig, Sig: e.ropeKey(sig), Result: v})
		if e.branch(v) {
			return Iface{}
		}
		return e.mkErr("crypto/rsa: verification error")

	// ---- ed25519 ---------------------------------------------------------------------------------------
	case "(crypto/ed25519.PrivateKey).Sign":
		priv := args[0].(BytesV)
		if !e.branch(tt.Eq(priv.n, e.c64(64))) {
			e.goPanic("ed25519: bad private key length")
		}
		opts := args[3].(Iface)
		if opts.typ != nil {
			// opts.HashFunc() must be 0 for plain Ed25519
			hv := e.invokeByName(opts, "HashFunc", nil).(*Term)
			if !e.branch(tt.Eq(hv, e.c64(0))) {
				return TupleV{e.zero(types.NewSlice(types.Typ[types.Uint8])), e.mkErr("ed25519: expected opts.HashFunc() zero (unhashed message, for standard Ed25519) or SHA-512 (for Ed25519ph)")}
			}
		}
		msg := e.bytesRope(args[2].(BytesV))
		pubRope := e.ropeSlice(e.bytesRope(priv), e.c64(32), e.c64(64))
		e.hashCount++
		arr := tt.Var(fmt.Sprintf("edsig%d", e.hashCount), sortArray)
		sig := Rope{SegBlob{arr, e.c64(0), e.c64(64)}}
		keyID := "ed:" + e.ropeKey(pubRope)
		e.assume(tt.UF("V_ed", 0, e.intern("key", keyID), e.canonID(msg), e.canonID(sig)))
		e.signedLog = append(e.signedLog, &PrimCall{Kind: "ed.sign", Key: keyID, Data: e.ropeKey(msg), DataRope: msg, Sig: e.ropeKey(sig)})
		return TupleV{e.bytesFromRope(sig), Iface{}}
	case "crypto/ed25519.Verify":
		pub := args[0].(BytesV)
		if !e.branch(tt.Eq(pub.n, e.c64(32))) {
			e.goPanic("ed25519: bad public key length")
		}
		msg := e.bytesRope(args[1].(BytesV))
		sigB := args[2].(BytesV)
		sig := e.bytesRope(sigB)
		keyID := "ed:" + e.ropeKey(e.bytesRope(pub))
		v := tt.And(tt.Eq(sigB.n, e.c64(64)), tt.UF("V_ed", 0, e.intern("key", keyID), e.canonID(msg), e.canonID(sig)))
		e.primLog = append(e.primLog, &PrimCall{Kind: "ed.verify", Key: keyID, Data: e.ropeKey(msg), DataRope: msg, Sig: e.ropeKey(sig), Result: v})
		return v
	case "crypto/ed25519.NewKeyFromSeed":
		seed := args[0].(BytesV)
		if !e.branch(tt.Eq(seed.n, e.c64(32))) {
			e.goPanic("ed25519: bad seed length")
		}
		sr := e.bytesRope(seed)
		arr := tt.Var("edpub_"+fmt.Sprint(e.intern("seed", e.ropeKey(sr)).u64()), sortArray)
		return e.bytesFromRope(ropeConcat(sr, Rope{SegBlob{arr, e.c64(0), e.c64(32)}}))

	// ---- asn1 ----------------------------------------------------------------------------------------------
	case "encoding/asn1.Marshal":
		// only the struct{R,S *big.Int} shape used by harness spies
		ifc := args[0].(Iface)
		sv, ok := ifc.val.(*StructV)
		if !ok || len(sv.fields) != 2 {
			e.unsupported("asn1.Marshal of other than struct{R,S}")
		}
		return TupleV{e.asn1Blob(sv.fields[0].(PtrV), sv.fields[1].(PtrV)), Iface{}}
	case "encoding/asn1.Unmarshal":
		b := args[0].(BytesV)
		dst := args[1].(Iface).val.(PtrV)
		r := e.bytesRope(b)
		if len(r) == 1 {
			if bl, ok := r[0].(SegBlob); ok {
				if sig, ok := e.asn1Blobs[bl.arr.id]; ok {
					e.store(dst, &StructV{fields: []Value{sig.r, sig.s}})
					return TupleV{e.bytesFromRope(nil), Iface{}}
				}
			}
		}
		if cb, ok := ropeConcrete(r); ok {
			// concrete input: ask the real decoder
			var sig struct{ R, S *big.Int }
			rest, err := asn1.Unmarshal(cb, &sig)
			if err != nil {
				return TupleV{e.bytesFromRope(nil), e.mkErr("asn1: " + err.Error())}
			}
			mk := func(x *big.Int) PtrV {
				return e.newBig(tt.BV(new(big.Int).Abs(x), 528), tt.Bool(x.Sign() < 0))
			}
			if sig.R.BitLen() > 528 || sig.S.BitLen() > 528 {
				e.unsupported("asn1 integer wider than 528 bits")
			}
			e.store(dst, &StructV{fields: []Value{mk(sig.R), mk(sig.S)}})
			return TupleV{e.bytesFromRope(ropeLit(rest)), Iface{}}
		}
		// arbitrary bytes: may fail or yield arbitrary integers
		if !e.branch(e.envBool("asn1.ok")) {
			return TupleV{e.bytesFromRope(nil), e.mkErr("asn1: structure error (injected)")}
		}
		rr := e.newBig(e.envVar("asn1.R", 528), e.envBool("asn1.Rneg"))
		ss := e.newBig(e.envVar("asn1.S", 528), e.envBool("asn1.Sneg"))
		e.store(dst, &StructV{fields: []Value{rr, ss}})
		return TupleV{e.bytesFromRope(nil), Iface{}}

	// ---- cbor modes ---------------------------------------------------------------------------------------------
	case "(github.com/fxamacker/cbor/v2.EncOptions).EncMode":
		opts := args[0].(*StructV)
		return TupleV{Iface{typ: e.fake("encmode"), val: OpaqueV{kind: "encmode", data: opts}}, Iface{}}
	case "(github.com/fxamacker/cbor/v2.DecOptions).DecMode":
		opts := args[0].(*StructV)
		return TupleV{Iface{typ: e.fake("decmode"), val: OpaqueV{kind: "decmode", data: opts}}, Iface{}}
	// ---- bytes.Buffer / cbor.Encoder (streams over a caller-provided slice) ----------------------------------------
	case "bytes.NewBuffer":
		return PtrV{cell: e.newCell(OpaqueV{kind: "bytes.Buffer", data: &bufState{b: args[0].(BytesV)}}, "bytes.Buffer")}
	case "(*bytes.Buffer).Bytes":
		b := e.bufOf(args[0]).b
		if pv, ok := args[0].(PtrV); ok && pv.cell != nil && b.obj != nil && b.obj.fromCell == nil {
			b.obj.fromCell = pv.cell // provenance: the buffer's own storage (sync.Pool tracking: use after Put)
		}
		return b
	case "(*bytes.Buffer).Reset":
		st := e.bufOf(args[0])
		st.b = BytesV{obj: st.b.obj, off: st.b.off, n: e.c64(0), cap: st.b.cap} // keeps the storage
		return nil
	case "(*bytes.Buffer).Grow":
		e.bufOf(args[0])
		return nil
	case "(*bytes.Buffer).Len":
		return e.bufOf(args[0]).b.n
	case "(*bytes.Buffer).Write":
		st := e.bufOf(args[0])
		add := args[1].(BytesV)
		st.b = e.appendOp(st.b, add).(BytesV) // appends in place while the capacity lasts, like the real Buffer
		return TupleV{add.n, Iface{}}
	case "(*bytes.Buffer).WriteByte":
		st := e.bufOf(args[0])
		st.b = e.appendOp(st.b, e.bytesFromRope(Rope{SegSym{args[1].(*Term)}})).(BytesV)
		return Iface{}
	case "gosym.encmode.NewEncoder":
		return PtrV{cell: e.newCell(OpaqueV{kind: "cbor.Encoder", data: &encState{opts: recv.(OpaqueV).data.(*StructV), w: args[0].(Iface)}}, "cbor.Encoder")}
	case "(*github.com/fxamacker/cbor/v2.Encoder).Encode":
		st := args[0].(PtrV).cell.val.(OpaqueV).data.(*encState)
		res := e.cborMarshal(st.opts, args[1].(Iface)).(TupleV)
		if err := res[1].(Iface); err.typ != nil {
			return err
		}
		wr := e.invokeByName(st.w, "Write", []Value{res[0]}).(TupleV)
		return wr[1]
	case "gosym.encmode.Marshal":
		return e.cborMarshal(recv.(OpaqueV).data.(*StructV), args[0].(Iface))
	case "gosym.decmode.Unmarshal":
		return e.cborUnmarshal(recv.(OpaqueV).data.(*StructV), args[0].(BytesV), args[1].(Iface))
	case "gosym.decmode.Wellformed":
		return e.cborWellformed(recv.(OpaqueV).data.(*StructV), args[0].(BytesV))
	}
	e.unsupported("stub not implemented: " + name)
	return nil
}

func (e *Engine) invokeByName(recv Iface, method string, args []Value) Value {
	ms := e.prog.MethodSets.MethodSet(recv.typ)
	for i := 0; i < ms.Len(); i++ {
		if ms.At(i).Obj().Name() == method {
			fn := e.prog.MethodValue(ms.At(i))
			return e.callStatic(fn, append([]Value{recv.val}, args...))
		}
	}
	e.unsupported("method " + method + " not found on " + recv.typ.String())
	return nil
}

func (e *Engine) errorsIs(err, target Iface, depth int) bool {
	if err.typ == nil {
		return target.typ == nil
	}
	if depth > 10 {
		return false
	}
	if types.Identical(err.typ, target.typ) && types.Comparable(err.typ) {
		if e.branch(e.valueEq(err, target)) {
			return true
		}
	}
	if p, ok := err.val.(PtrV); ok && p.cell != nil {
		if ev, ok := p.cell.val.(ErrV); ok {
			for _, w := range ev.wraps {
				if e.errorsIs(w.(Iface), target, depth+1) {
					return true
				}
			}
		}
	}
	return false
}

func (e *Engine) envBool(name string) *Term {
	n := e.freshName("env." + name)
	t := e.tt.Var(n, 0)
	e.nondets = append(e.nondets, &Nondet{Name: n, Kind: "bool", Term: t})
	return t
}
func (e *Engine) envVar(name string, w int) *Term {
	n := e.freshName("env." + name)
	t := e.tt.Var(n, w)
	e.nondets = append(e.nondets, &Nondet{Name: n, Kind: "big", Term: t})
	return t
}

type canonEntry struct {
	rope Rope
	key  string
	id   *Term
}

// canonID gives byte strings an identity such that ropes the solver proves
// equal (under the current path condition) share it. New identities are
// numbered in order of appearance (deterministic under re-execution).
func (e *Engine) canonID(r Rope) *Term {
	key := e.ropeKey(r)
	for _, c := range e.canon {
		if c.key == key {
			return c.id
		}
	}
	for _, c := range e.canon {
		if e.provablyEqual(c.rope, r) {
			e.canon = append(e.canon, canonEntry{r, key, c.id})
			return c.id
		}
	}
	id := e.c64(uint64(0xC0DE0000 + len(e.canon)))
	e.canon = append(e.canon, canonEntry{r, key, id})
	return id
}

// provablyEqual: the solver proves the two byte strings equal under the path
// condition; never forks (an alignment that would need a case split counts as "not proven").
func (e *Engine) provablyEqual(a, b Rope) (res bool) {
	e.noFork++
	defer func() {
		e.noFork--
		if r := recover(); r != nil {
			if _, ok := r.(noForkAbort); ok {
				res = false
				return
			}
			panic(r)
		}
	}()
	eq := e.ropeEq(a, b)
	if eq.isTrue() {
		return true
	}
	if eq.isFalse() {
		return false
	}
	return e.mustBe(eq)
}

func (e *Engine) hashOf(h *Term, data Rope) Rope {
	k, _ := e.concretizeAmong(h, []uint64{5, 6, 7})
	size := map[uint64]uint64{5: 32, 6: 48, 7: 64}[k]
	id := e.canonID(data)
	arr := e.tt.Var(fmt.Sprintf("H%d_%x", k, id.u64()), sortArray)
	e.primLog = append(e.primLog, &PrimCall{Kind: "hash", Hash: h, Data: e.ropeKey(data), DataRope: data})
	return Rope{SegBlob{arr, e.c64(0), e.c64(size)}}
}

func (e *Engine) asn1Blob(r, s PtrV) BytesV {
	e.hashCount++
	arr := e.tt.Var(fmt.Sprintf("asn1_%d", e.hashCount), sortArray)
	// exact DER length of SEQUENCE{INTEGER r, INTEGER s}: minimal two's complement contents, short/long form lengths
	tt := e.tt
	intLen := func(p PtrV) *Term {
		b, _ := e.bigOf(p)
		zero := tt.Eq(b.mag, tt.BVu(0, b.mag.w))
		pos := tt.Bin("bvadd", tt.Bin("bvlshr", e.bitLen(b.mag), e.c64(3)), e.c64(1))
		m1 := tt.Bin("bvsub", b.mag, tt.BVu(1, b.mag.w))
		negl := tt.Bin("bvadd", tt.Bin("bvlshr", e.bitLen(m1), e.c64(3)), e.c64(1))
		return tt.Ite(tt.Or(zero, tt.Not(b.neg)), pos, negl)
	}
	content := tt.Bin("bvadd", e.c64(4), tt.Bin("bvadd", intLen(r), intLen(s)))
	n := tt.Ite(tt.Cmp("bvult", content, e.c64(128)), tt.Bin("bvadd", content, e.c64(2)),
		tt.Ite(tt.Cmp("bvult", content, e.c64(256)), tt.Bin("bvadd", content, e.c64(3)), tt.Bin("bvadd", content, e.c64(4))))
	if e.asn1Blobs == nil {
		e.asn1Blobs = map[int]asn1Sig{}
	}
	e.asn1Blobs[arr.id] = asn1Sig{r, s}
	return e.bytesFromRope(Rope{SegBlob{arr, e.c64(0), n}})
}

// randFailure: the entropy source handed to a primitive is the harness's failing reader (vFailRand): the
// primitive reads from it before anything else and returns its error (crypto/ecdsa, crypto/rsa PSS salt).
// Any other reader - also a wrapper the code under test built around the failing one - counts as working.
func (e *Engine) randFailure(r Value) (Iface, bool) {
	if ifc, ok := r.(Iface); ok {
		if o, ok := ifc.val.(OpaqueV); ok && o.kind == "rand-fail" {
			e.envFailures++
			return o.data.(Iface), true
		}
	}
	return Iface{}, false
}

func (e *Engine) ecdsaSign(priv PtrV, digest BytesV) (PtrV, PtrV, Iface) {
	pk := e.load(priv).(*StructV) // {PublicKey{Curve,X,Y}, D}
	pub := pk.fields[0].(*StructV)
	cn := curveNameOf(pub.fields[0])
	if cn == "" {
		e.goPanic("ecdsa.Sign with nil curve")
	}
	if !e.branch(e.envBool("ecdsa.Sign.ok")) {
		e.envFailures++
		return PtrV{}, PtrV{}, e.mkErr("ecdsa: signing failed (entropy source error, injected)")
	}
	return e.ecdsaSignOK(priv, digest)
}

func (e *Engine) ecdsaSignOK(priv PtrV, digest BytesV) (PtrV, PtrV, Iface) {
	tt := e.tt
	pk := e.load(priv).(*StructV)
	pub := pk.fields[0].(*StructV)
	cn := curveNameOf(pub.fields[0])
	// (r, s) live in the curve's own width (zero-extended to the common 528 bits): keeps the
	// leading-zero reasoning of the fixed-width encoding syntactic for the solver
	w := map[string]int{"P-256": 256, "P-384": 384, "P-521": 528, "P-224": 224}[cn]
	Nw := tt.BV(realCurve(cn).Params().N, w)
	rw := e.envVar("ecdsa.r", w)
	sw := e.envVar("ecdsa.s", w)
	zw := tt.BVu(0, w)
	e.addPC(tt.And(tt.Ne(rw, zw), tt.Ne(sw, zw), tt.Cmp("bvult", rw, Nw), tt.Cmp("bvult", sw, Nw)))
	// counterexample models should need at most one leading zero byte in r and s (a native nonce search finds those)
	full := (realCurve(cn).Params().N.BitLen() + 7) / 8
	lowBound := tt.BV(new(big.Int).Lsh(big.NewInt(1), uint(8*(full-2))), w)
	for _, nd := range e.nondets[len(e.nondets)-2:] {
		nd.Prefer = append(nd.Prefer, tt.Cmp("bvule", lowBound, nd.Term))
	}
	r, s := tt.ZExt(rw, 528), tt.ZExt(sw, 528)
	dig := e.bytesRope(digest)
	keyID := e.ecPubID(pub)
	kc, kx, ky := e.ecKeyTerms(pub)
	e.addPC(tt.UF("V_ecdsa", 0, kc, kx, ky, e.canonID(dig), r, s))
	e.signedLog = append(e.signedLog, &PrimCall{Kind: "ecdsa.sign", Key: keyID, KC: kc, KX: kx, KY: ky, DataID: e.canonID(dig), Data: e.ropeKey(dig), DataRope: dig, R: r, S: s})
	return e.newBig(r, tt.Bool(false)), e.newBig(s, tt.Bool(false)), Iface{}
}

func (e *Engine) rsaPubID(pub *StructV) string {
	n, _ := e.bigOf(pub.fields[0])
	return fmt.Sprintf("rsa:%d", n.mag.id)
}

// rsaSize: modulus size in bytes as term
func (e *Engine) rsaSize(pub *StructV) *Term {
	n, _ := e.bigOf(pub.fields[0])
	bl := n.bl
	if bl == nil {
		bl = e.bitLen(n.mag)
	}
	return e.tt.Bin("bvlshr", e.tt.Bin("bvadd", bl, e.c64(7)), e.c64(3))
}

var _ = sort.Strings
