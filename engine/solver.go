package main

// One long-lived `z3 -in` per worker. Terms are introduced as top-level
// define-fun (never popped); queries run inside push/pop.

import (
	"os"
	"bufio"
	"fmt"
	"io"
	"math/big"
	"os/exec"
	"sort"
	"strings"
	"sync"
	"time"
)

type Solver struct {
	tt        *TermTable
	cmd       *exec.Cmd
	in        io.WriteCloser
	out       *bufio.Reader
	defined   map[int]bool
	stack     []*Term          // persistently asserted terms (one push frame each)
	lenAxioms map[int]string   // bitlen/bytelen term id -> axiom text
	lensIn    map[int][]int    // memo: term id -> ids of bitlen/bytelen terms below it
	axDone    map[int]bool
	wideIn    map[int]bool     // memo: term id -> DAG contains a bit-vector wider than 64 bits
	nVarsDone int
	nUFDone   int
	cache     map[string]string
	bin       string
	timeoutMs int
	// stats
	queries    int
	cacheHits  int
	solverTime time.Duration
	errors     int
	unknowns   int
	log        io.Writer
	// cross-solver re-check of sampled unsat answers (DESIGN 5.5)
	cross   []*Solver
	isCross bool
	nUnsat  int
}

// crossEvery > 0: every crossEvery-th fresh `unsat` answer of a worker's primary solver is re-decided by
// z3 5.1.0 (z3-new) and cvc5 on the same conjunction; an answer `sat` from either turns the verdict into
// unknown (inconclusive, DEGRADED) - an unsound unsat is the one solver error that could hide a violation.
var crossEvery int
var crossBins = []string{"z3-new", "cvc5"}

var crossStats struct {
	mu       sync.Mutex
	checked  int
	agree    map[string]int
	unknown  map[string]int
	disagree map[string]int
	time     time.Duration
}

func (s *Solver) crossCheck(all []*Term) bool {
	if s.cross == nil {
		for _, b := range crossBins {
			if _, err := exec.LookPath(b); err != nil {
				continue
			}
			to := s.timeoutMs
			if to > 20000 {
				to = 20000
			}
			cs := newSolver(s.tt, b, to)
			cs.isCross = true
			s.cross = append(s.cross, cs)
		}
	}
	ok := true
	t0 := time.Now()
	res := map[string]string{}
	for _, cs := range s.cross {
		r, _ := cs.CheckInc(nil, all, nil)
		res[cs.bin] = r
		if r == rSat {
			ok = false
		}
	}
	crossStats.mu.Lock()
	if crossStats.agree == nil {
		crossStats.agree, crossStats.unknown, crossStats.disagree = map[string]int{}, map[string]int{}, map[string]int{}
	}
	crossStats.checked++
	crossStats.time += time.Since(t0)
	for b, r := range res {
		switch r {
		case rUnsat:
			crossStats.agree[b]++
		case rSat:
			crossStats.disagree[b]++
		default:
			crossStats.unknown[b]++
		}
	}
	crossStats.mu.Unlock()
	return ok
}

func newSolver(tt *TermTable, bin string, timeoutMs int) *Solver {
	s := &Solver{tt: tt, bin: bin, timeoutMs: timeoutMs, cache: map[string]string{}}
	s.start()
	return s
}

func (s *Solver) start() {
	var args []string
	switch {
	case strings.Contains(s.bin, "cvc5"):
		args = []string{"--incremental", "--lang=smt2", "--produce-models", fmt.Sprintf("--tlimit-per=%d", s.timeoutMs)}
	default:
		args = []string{"-in", fmt.Sprintf("-t:%d", s.timeoutMs)}
	}
	s.cmd = exec.Command(s.bin, args...)
	in, _ := s.cmd.StdinPipe()
	out, _ := s.cmd.StdoutPipe()
	s.cmd.Stderr = nil
	if err := s.cmd.Start(); err != nil {
		panic(err)
	}
	s.in = in
	s.out = bufio.NewReaderSize(out, 1<<20)
	if f := os.Getenv("GOSYM_SMTLOG"); f != "" {
		s.log, _ = os.OpenFile(f, os.O_CREATE|os.O_WRONLY|os.O_APPEND, 0o644)
	}
	s.defined = map[int]bool{}
	s.nVarsDone = 0
	s.nUFDone = 0
	if strings.Contains(s.bin, "cvc5") {
		s.send("(set-logic ALL)\n")
	}
	s.send("(set-option :produce-models true)\n(set-option :global-declarations true)\n")
	s.stack = nil
	s.lenAxioms = map[int]string{}
	s.lensIn = map[int][]int{}
	s.wideIn = map[int]bool{}
	s.axDone = map[int]bool{}
}

func (s *Solver) Close() {
	for _, cs := range s.cross {
		cs.Close()
	}
	s.cross = nil
	if s.cmd != nil {
		s.in.Close()
		s.cmd.Process.Kill()
		s.cmd.Wait()
		s.cmd = nil
	}
}

func (s *Solver) restart() {
	s.Close()
	s.start()
}

func (s *Solver) send(str string) {
	if s.log != nil {
		io.WriteString(s.log, str)
	}
	io.WriteString(s.in, str)
}

// roundTrip sends a sentinel and returns all output lines before it.
func (s *Solver) roundTrip() []string {
	s.send("(echo \"@@done\")\n")
	var lines []string
	for {
		line, err := s.out.ReadString('\n')
		if err != nil {
			lines = append(lines, "(error \"solver died: "+err.Error()+"\")")
			s.restart()
			return lines
		}
		line = strings.TrimSpace(line)
		if line == "@@done" || line == "\"@@done\"" {
			return lines
		}
		if line != "" {
			lines = append(lines, line)
		}
	}
}

func (s *Solver) define(t *Term, sb *strings.Builder) {
	if s.defined[t.id] || t.op == "const" {
		return
	}
	// iterative post-order to avoid deep recursion
	type fr struct {
		t *Term
		i int
	}
	stack := []fr{{t, 0}}
	for len(stack) > 0 {
		f := &stack[len(stack)-1]
		if s.defined[f.t.id] || f.t.op == "const" {
			stack = stack[:len(stack)-1]
			continue
		}
		if f.i < len(f.t.args) {
			a := f.t.args[f.i]
			f.i++
			if !s.defined[a.id] && a.op != "const" {
				stack = append(stack, fr{a, 0})
			}
			continue
		}
		x := f.t
		stack = stack[:len(stack)-1]
		s.defined[x.id] = true
		if x.op == "var" {
			fmt.Fprintf(sb, "(declare-const t%d %s)\n", x.id, sortStr(x.w))
			continue
		}
		if x.op == "bitlen" || x.op == "bytelen" {
			// definitional axioms (order encoding); asserted inside every query frame that mentions the term
			fmt.Fprintf(sb, "(declare-const t%d (_ BitVec 64))\n", x.id)
			var ax strings.Builder
			in := x.args[0]
			unit, top := 1, in.w
			if x.op == "bytelen" {
				unit, top = 8, (in.w+7)/8
			}
			fmt.Fprintf(&ax, "(assert (bvule t%d #x%016x))\n", x.id, top)
			for k := 0; k < top; k++ {
				if k*unit >= in.w {
					break
				}
				p := new(big.Int).Lsh(big.NewInt(1), uint(k*unit))
				pc := s.tt.BV(p, in.w)
				fmt.Fprintf(&ax, "(assert (= (bvule t%d #x%016x) (bvult %s %s)))\n", x.id, k, ref(in), constStr(pc))
			}
			s.lenAxioms[x.id] = ax.String()
			continue
		}
		if x.op == "uf" {
			if d, ok := s.tt.ufs[x.name]; ok && !s.defined[-1-ufIndex(s.tt, x.name)] {
				s.defined[-1-ufIndex(s.tt, x.name)] = true
				sb.WriteString(d + "\n")
			}
		}
		fmt.Fprintf(sb, "(define-fun t%d () %s %s)\n", x.id, sortStr(x.w), s.expr(x))
	}
}

func ufIndex(tt *TermTable, name string) int {
	for i, n := range tt.ufList {
		if n == name {
			return i
		}
	}
	return 1 << 20
}

func ref(t *Term) string {
	if t.op == "const" {
		return constStr(t)
	}
	return fmt.Sprintf("t%d", t.id)
}

func (s *Solver) expr(x *Term) string {
	var sb strings.Builder
	switch x.op {
	case "extract":
		fmt.Fprintf(&sb, "((_ extract %d %d) %s)", x.p1, x.p2, ref(x.args[0]))
	case "zext":
		fmt.Fprintf(&sb, "((_ zero_extend %d) %s)", x.p1, ref(x.args[0]))
	case "sext":
		fmt.Fprintf(&sb, "((_ sign_extend %d) %s)", x.p1, ref(x.args[0]))
	case "uf":
		if len(x.args) == 0 {
			sb.WriteString(x.name)
		} else {
			sb.WriteString("(" + x.name)
			for _, a := range x.args {
				sb.WriteString(" " + ref(a))
			}
			sb.WriteString(")")
		}
	default:
		sb.WriteString("(" + x.op)
		for _, a := range x.args {
			sb.WriteString(" " + ref(a))
		}
		sb.WriteString(")")
	}
	return sb.String()
}

var noWideMode = os.Getenv("GOSYM_WIDE") == ""

var slowLog = os.Getenv("GOSYM_SLOW") != ""

const (
	rSat     = "sat"
	rUnsat   = "unsat"
	rUnknown = "unknown"
)

// lens collects the bitlen/bytelen terms in the DAG of t (memoised).
func (s *Solver) lens(t *Term) []int {
	if r, ok := s.lensIn[t.id]; ok {
		return r
	}
	var out []int
	seen := map[int]bool{}
	if t.op == "bitlen" || t.op == "bytelen" {
		out = append(out, t.id)
		seen[t.id] = true
	}
	for _, a := range t.args {
		for _, id := range s.lens(a) {
			if !seen[id] {
				seen[id] = true
				out = append(out, id)
			}
		}
	}
	s.lensIn[t.id] = out
	return out
}

func (s *Solver) wide(t *Term) bool {
	if r, ok := s.wideIn[t.id]; ok {
		return r
	}
	r := t.w > 64
	for _, a := range t.args {
		if r {
			break
		}
		r = s.wide(a)
	}
	s.wideIn[t.id] = r
	return r
}

// Check decides satisfiability of the conjunction (non-incremental entry point).
func (s *Solver) Check(conj []*Term, evalTerms []*Term) (string, []*big.Int) {
	return s.CheckInc(nil, conj, evalTerms)
}

// CheckInc decides pc ∧ extra. pc is kept asserted in the solver across calls
// (one push frame per conjunct, longest common prefix reused). If evalTerms is
// non-nil and the result is sat, their model values are returned.
func (s *Solver) CheckInc(pc []*Term, extra []*Term, evalTerms []*Term) (string, []*big.Int) {
	var live []*Term
	for _, c := range pc {
		if c.isFalse() {
			return rUnsat, nil
		}
		if !c.isTrue() {
			live = append(live, c)
		}
	}
	var ex []*Term
	for _, c := range extra {
		if c.isFalse() {
			return rUnsat, nil
		}
		if !c.isTrue() {
			ex = append(ex, c)
		}
	}
	// cache key
	ids := make([]int, 0, len(live)+len(ex))
	for _, c := range live {
		ids = append(ids, c.id)
	}
	for _, c := range ex {
		ids = append(ids, c.id)
	}
	sort.Ints(ids)
	var kb strings.Builder
	last := -1
	for _, id := range ids {
		if id != last {
			fmt.Fprintf(&kb, "%d,", id)
		}
		last = id
	}
	key := kb.String()
	if evalTerms == nil {
		if r, ok := s.cache[key]; ok {
			s.cacheHits++
			return r, nil
		}
	}
	all := append(append([]*Term{}, live...), ex...)
	var sb strings.Builder
	// queries over wide bit-vectors are faster without a deep assertion stack: use a single frame
	isWide := false
	for _, c := range live {
		if s.wide(c) {
			isWide = true
			break
		}
	}
	if !isWide {
		for _, c := range ex {
			if s.wide(c) {
				isWide = true
				break
			}
		}
	}
	if isWide && !noWideMode {
		ex = append(append([]*Term{}, live...), ex...)
		live = nil
	}
	// definitions first; new abstract-length terms get their axioms asserted at top level (stack emptied for that)
	var defs strings.Builder
	nAx := len(s.lenAxioms)
	for _, c := range live {
		s.define(c, &defs)
	}
	for _, c := range ex {
		s.define(c, &defs)
	}
	for _, e := range evalTerms {
		s.define(e, &defs)
	}
	if len(s.lenAxioms) > nAx {
		if len(s.stack) > 0 {
			fmt.Fprintf(&sb, "(pop %d)\n", len(s.stack))
			s.stack = nil
		}
		sb.WriteString(defs.String())
		for id, ax := range s.lenAxioms {
			if !s.axDone[id] {
				s.axDone[id] = true
				sb.WriteString(ax)
			}
		}
	} else {
		sb.WriteString(defs.String())
	}
	// align the persistent stack with pc
	L := 0
	for L < len(s.stack) && L < len(live) && s.stack[L] == live[L] {
		L++
	}
	if L < len(s.stack) {
		fmt.Fprintf(&sb, "(pop %d)\n", len(s.stack)-L)
		s.stack = s.stack[:L]
	}
	for _, c := range live[L:] {
		fmt.Fprintf(&sb, "(push)\n(assert %s)\n", ref(c))
		s.stack = append(s.stack, c)
	}
	sb.WriteString("(push)\n")
	for _, c := range ex {
		fmt.Fprintf(&sb, "(assert %s)\n", ref(c))
	}
	if isWide {
		live = ex
	}
	sb.WriteString("(check-sat)\n")
	t0 := time.Now()
	s.send(sb.String())
	lines := s.roundTrip()
	dt := time.Since(t0)
	s.solverTime += dt
	s.queries++
	if slowLog && dt > 500*time.Millisecond {
		lastT := fmt.Sprintf("(%d terms)", len(live)+len(ex))
		if len(ex) > 0 {
			lastT = ex[len(ex)-1].str(3)
		} else if len(live) > 0 {
			lastT = live[len(live)-1].str(3)
		}
		fmt.Fprintf(os.Stderr, "SLOW query %.1fs: %d+%d asserts; last=%s\n", dt.Seconds(), len(live), len(ex), lastT)
	}
	res := rUnknown
	bad := false
	for _, l := range lines {
		if strings.HasPrefix(l, "(error") {
			bad = true
			if s.log != nil {
				fmt.Fprintf(s.log, "; %s\n", l)
			}
		}
		switch l {
		case "sat", "unsat", "unknown", "timeout":
			res = l
		}
	}
	if res == "timeout" {
		res = rUnknown
	}
	if bad {
		s.errors++
		res = rUnknown
	}
	if res == rUnknown {
		s.unknowns++
	}
	var vals []*big.Int
	if res == rSat && len(evalTerms) > 0 {
		vals = make([]*big.Int, len(evalTerms))
		const batch = 200
		for i := 0; i < len(evalTerms); i += batch {
			j := i + batch
			if j > len(evalTerms) {
				j = len(evalTerms)
			}
			var q strings.Builder
			q.WriteString("(get-value (")
			for _, e := range evalTerms[i:j] {
				q.WriteString(ref(e) + " ")
			}
			q.WriteString("))\n")
			s.send(q.String())
			out := strings.Join(s.roundTrip(), " ")
			got := parseValues(out)
			if len(got) != j-i {
				s.errors++
				res = rUnknown
				vals = nil
				break
			}
			copy(vals[i:j], got)
		}
	}
	s.send("(pop)\n")
	if bad {
		// the solver state may be inconsistent after an error: start afresh
		s.restart()
	}
	if res == rUnsat && !s.isCross && crossEvery > 0 {
		s.nUnsat++
		if s.nUnsat%crossEvery == 0 && !s.crossCheck(all) {
			res = rUnknown
			s.unknowns++
		}
	}
	if evalTerms == nil {
		s.cache[key] = res
	}
	return res, vals
}

// parseValues extracts the value of each pair of a get-value answer, in order.
func parseValues(out string) []*big.Int {
	var vals []*big.Int
	// tokens: find each "(<name-or-const> <value>)" pair; values are #x.., #b.., true, false
	toks := tokenize(out)
	// structure: ( ( a v ) ( a v ) ... )
	depth := 0
	var cur []string
	for _, t := range toks {
		switch t {
		case "(":
			depth++
			if depth == 2 {
				cur = nil
			}
		case ")":
			if depth == 2 && len(cur) >= 2 {
				v := cur[len(cur)-1]
				vals = append(vals, parseConst(v))
			}
			depth--
		default:
			if depth >= 2 {
				cur = append(cur, t)
			}
		}
	}
	return vals
}

func tokenize(s string) []string {
	var toks []string
	i := 0
	for i < len(s) {
		c := s[i]
		switch {
		case c == '(' || c == ')':
			toks = append(toks, string(c))
			i++
		case c == ' ' || c == '\n' || c == '\t':
			i++
		default:
			j := i
			for j < len(s) && s[j] != '(' && s[j] != ')' && s[j] != ' ' && s[j] != '\n' {
				j++
			}
			toks = append(toks, s[i:j])
			i = j
		}
	}
	return toks
}

func parseConst(v string) *big.Int {
	switch {
	case v == "true":
		return big.NewInt(1)
	case v == "false":
		return big.NewInt(0)
	case strings.HasPrefix(v, "#x"):
		n, _ := new(big.Int).SetString(v[2:], 16)
		return n
	case strings.HasPrefix(v, "#b"):
		n, _ := new(big.Int).SetString(v[2:], 2)
		return n
	}
	return nil
}
