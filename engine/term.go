package main

// Hash-consed SMT terms (Bool, bit-vectors of any width, byte arrays) with
// constant folding. One table per worker (no locking).

import (
	"fmt"
	"math/big"
	"strings"
)

const (
	sortBool  = 0
	sortArray = -1 // (Array (_ BitVec 64) (_ BitVec 8))
)

type Term struct {
	id   int
	op   string // "const","var","ite","=", bv ops, "and","or","not","select","extract","zext","sext","concat","uf"
	args []*Term
	w    int      // sort: >0 bit-vector width, 0 bool, -1 array
	val  *big.Int // for const (bool: 0/1)
	name string   // var / uf name
	p1   int      // extract hi / ext amount
	p2   int      // extract lo
}

type TermTable struct {
	tab    map[string]*Term
	nextID int
	vars   []*Term            // declaration order
	ufs    map[string]string // uf name -> declaration
	ufList []string
}

func newTermTable() *TermTable {
	return &TermTable{tab: map[string]*Term{}, ufs: map[string]string{}}
}

func (tt *TermTable) mk(t *Term) *Term {
	var sb strings.Builder
	sb.WriteString(t.op)
	sb.WriteByte('|')
	fmt.Fprintf(&sb, "%d|%d|%d|%s|", t.w, t.p1, t.p2, t.name)
	if t.val != nil {
		sb.WriteString(t.val.Text(16))
	}
	for _, a := range t.args {
		fmt.Fprintf(&sb, ",%d", a.id)
	}
	k := sb.String()
	if e, ok := tt.tab[k]; ok {
		return e
	}
	tt.nextID++
	t.id = tt.nextID
	tt.tab[k] = t
	if t.op == "var" {
		tt.vars = append(tt.vars, t)
	}
	return t
}

func mask(w int) *big.Int {
	m := new(big.Int).Lsh(big.NewInt(1), uint(w))
	return m.Sub(m, big.NewInt(1))
}

func (tt *TermTable) BV(v *big.Int, w int) *Term {
	if w <= 0 {
		panic("BV width")
	}
	x := new(big.Int).And(v, mask(w))
	if v.Sign() < 0 {
		x = new(big.Int).Mod(v, new(big.Int).Lsh(big.NewInt(1), uint(w)))
	}
	return tt.mk(&Term{op: "const", w: w, val: x})
}
func (tt *TermTable) BVu(v uint64, w int) *Term { return tt.BV(new(big.Int).SetUint64(v), w) }
func (tt *TermTable) BVi(v int64, w int) *Term  { return tt.BV(big.NewInt(v), w) }
func (tt *TermTable) Bool(b bool) *Term {
	v := big.NewInt(0)
	if b {
		v = big.NewInt(1)
	}
	return tt.mk(&Term{op: "const", w: sortBool, val: v})
}
func (tt *TermTable) Var(name string, w int) *Term {
	return tt.mk(&Term{op: "var", w: w, name: name})
}

func (t *Term) isConst() bool { return t.op == "const" }
func (t *Term) isTrue() bool  { return t.op == "const" && t.w == 0 && t.val.Sign() != 0 }
func (t *Term) isFalse() bool { return t.op == "const" && t.w == 0 && t.val.Sign() == 0 }
func (t *Term) u64() uint64   { return t.val.Uint64() }
func (t *Term) signed() *big.Int {
	v := new(big.Int).Set(t.val)
	if t.w > 0 && v.Bit(t.w-1) == 1 {
		v.Sub(v, new(big.Int).Lsh(big.NewInt(1), uint(t.w)))
	}
	return v
}
func (t *Term) i64() int64 { return t.signed().Int64() }

func (tt *TermTable) Not(a *Term) *Term {
	if a.isConst() {
		return tt.Bool(a.val.Sign() == 0)
	}
	if a.op == "not" {
		return a.args[0]
	}
	return tt.mk(&Term{op: "not", w: 0, args: []*Term{a}})
}
func (tt *TermTable) And(as ...*Term) *Term {
	var out []*Term
	for _, a := range as {
		if a.isFalse() {
			return a
		}
		if a.isTrue() {
			continue
		}
		if a.op == "and" {
			out = append(out, a.args...)
			continue
		}
		out = append(out, a)
	}
	if len(out) == 0 {
		return tt.Bool(true)
	}
	if len(out) == 1 {
		return out[0]
	}
	return tt.mk(&Term{op: "and", w: 0, args: out})
}
func (tt *TermTable) Or(as ...*Term) *Term {
	var out []*Term
	for _, a := range as {
		if a.isTrue() {
			return a
		}
		if a.isFalse() {
			continue
		}
		if a.op == "or" {
			out = append(out, a.args...)
			continue
		}
		out = append(out, a)
	}
	if len(out) == 0 {
		return tt.Bool(false)
	}
	if len(out) == 1 {
		return out[0]
	}
	return tt.mk(&Term{op: "or", w: 0, args: out})
}
func (tt *TermTable) Implies(a, b *Term) *Term { return tt.Or(tt.Not(a), b) }

func (tt *TermTable) Ite(c, a, b *Term) *Term {
	if c.isTrue() {
		return a
	}
	if c.isFalse() {
		return b
	}
	if a == b {
		return a
	}
	if a.w == 0 {
		if a.isTrue() && b.isFalse() {
			return c
		}
		if a.isFalse() && b.isTrue() {
			return tt.Not(c)
		}
	}
	if a.w != b.w {
		panic(fmt.Sprintf("ite sort mismatch %d %d", a.w, b.w))
	}
	return tt.mk(&Term{op: "ite", w: a.w, args: []*Term{c, a, b}})
}

func (tt *TermTable) Eq(a, b *Term) *Term {
	if a == b {
		return tt.Bool(true)
	}
	if a.w != b.w {
		panic(fmt.Sprintf("eq sort mismatch %d %d (%s vs %s)", a.w, b.w, a.op, b.op))
	}
	if a.isConst() && b.isConst() {
		return tt.Bool(a.val.Cmp(b.val) == 0)
	}
	if a.w == 64 {
		if b.isConst() {
			if r, ok := tt.lenCmp("=", a, b); ok {
				return r
			}
		} else if a.isConst() {
			if r, ok := tt.lenCmp("=", b, a); ok {
				return r
			}
		}
	}
	if a.w == 0 {
		if a.isConst() {
			a, b = b, a
		}
		if b.isTrue() {
			return a
		}
		if b.isFalse() {
			return tt.Not(a)
		}
	}
	// equality of a concat with a constant splits (folds when one part is constant)
	if b.isConst() && a.op == "concat" {
		lw := a.args[1].w
		return tt.And(tt.Eq(a.args[0], tt.Extract(b, b.w-1, lw)), tt.Eq(a.args[1], tt.Extract(b, lw-1, 0)))
	}
	if a.isConst() && b.op == "concat" {
		lw := b.args[1].w
		return tt.And(tt.Eq(b.args[0], tt.Extract(a, a.w-1, lw)), tt.Eq(b.args[1], tt.Extract(a, lw-1, 0)))
	}
	// push equality with a constant through ite with constant arms
	if b.isConst() && a.op == "ite" && (a.args[1].isConst() || a.args[2].isConst()) {
		return tt.Ite(a.args[0], tt.Eq(a.args[1], b), tt.Eq(a.args[2], b))
	}
	if a.isConst() && b.op == "ite" && (b.args[1].isConst() || b.args[2].isConst()) {
		return tt.Ite(b.args[0], tt.Eq(b.args[1], a), tt.Eq(b.args[2], a))
	}
	if a.id > b.id {
		a, b = b, a
	}
	return tt.mk(&Term{op: "=", w: 0, args: []*Term{a, b}})
}
func (tt *TermTable) Ne(a, b *Term) *Term { return tt.Not(tt.Eq(a, b)) }

func toSigned(v *big.Int, w int) *big.Int {
	x := new(big.Int).Set(v)
	if x.Bit(w-1) == 1 {
		x.Sub(x, new(big.Int).Lsh(big.NewInt(1), uint(w)))
	}
	return x
}

// Bin builds a binary bit-vector operation (result width = operand width).
func (tt *TermTable) Bin(op string, a, b *Term) *Term {
	if a.w != b.w || a.w <= 0 {
		panic(fmt.Sprintf("bin %s width mismatch %d %d", op, a.w, b.w))
	}
	w := a.w
	if a.isConst() && b.isConst() {
		x, y := a.val, b.val
		r := new(big.Int)
		switch op {
		case "bvadd":
			r.Add(x, y)
		case "bvsub":
			r.Sub(x, y)
		case "bvmul":
			r.Mul(x, y)
		case "bvand":
			r.And(x, y)
		case "bvor":
			r.Or(x, y)
		case "bvxor":
			r.Xor(x, y)
		case "bvshl":
			if y.Cmp(big.NewInt(int64(w))) >= 0 {
				r.SetInt64(0)
			} else {
				r.Lsh(x, uint(y.Uint64()))
			}
		case "bvlshr":
			if y.Cmp(big.NewInt(int64(w))) >= 0 {
				r.SetInt64(0)
			} else {
				r.Rsh(x, uint(y.Uint64()))
			}
		case "bvashr":
			sx := toSigned(x, w)
			if y.Cmp(big.NewInt(int64(w))) >= 0 {
				if sx.Sign() < 0 {
					r.SetInt64(-1)
				} else {
					r.SetInt64(0)
				}
			} else {
				r.Rsh(sx, uint(y.Uint64()))
			}
		case "bvudiv":
			if y.Sign() == 0 {
				r = mask(w)
			} else {
				r.Div(x, y)
			}
		case "bvurem":
			if y.Sign() == 0 {
				r.Set(x)
			} else {
				r.Mod(x, y)
			}
		case "bvsdiv":
			if y.Sign() == 0 {
				goto noFold
			}
			r.Quo(toSigned(x, w), toSigned(y, w))
		case "bvsrem":
			if y.Sign() == 0 {
				goto noFold
			}
			r.Rem(toSigned(x, w), toSigned(y, w))
		default:
			panic("bin op " + op)
		}
		return tt.BV(r, w)
	}
noFold:
	// identities
	switch op {
	case "bvadd", "bvor", "bvxor":
		if a.isConst() && a.val.Sign() == 0 {
			return b
		}
		if b.isConst() && b.val.Sign() == 0 {
			return a
		}
	case "bvsub", "bvshl", "bvlshr", "bvashr":
		if b.isConst() && b.val.Sign() == 0 {
			return a
		}
		if op == "bvsub" && a == b {
			return tt.BVu(0, w)
		}
	case "bvand":
		if a.isConst() && a.val.Sign() == 0 {
			return a
		}
		if b.isConst() && b.val.Sign() == 0 {
			return b
		}
		if a.isConst() && a.val.Cmp(mask(w)) == 0 {
			return b
		}
		if b.isConst() && b.val.Cmp(mask(w)) == 0 {
			return a
		}
	case "bvmul":
		if a.isConst() && a.val.Cmp(big.NewInt(1)) == 0 {
			return b
		}
		if b.isConst() && b.val.Cmp(big.NewInt(1)) == 0 {
			return a
		}
	}
	// (x + c1) + c2, (x + c1) - c2 folding helps length arithmetic
	if (op == "bvadd" || op == "bvsub") && b.isConst() && (a.op == "bvadd") && a.args[1].isConst() {
		c := new(big.Int)
		if op == "bvadd" {
			c.Add(a.args[1].val, b.val)
		} else {
			c.Sub(a.args[1].val, b.val)
		}
		return tt.Bin("bvadd", a.args[0], tt.BV(c, w))
	}
	if op == "bvadd" && a.isConst() && !b.isConst() {
		a, b = b, a
	}
	// (a - b) + b => a ; (a + b) - b => a
	if op == "bvadd" && a.op == "bvsub" && a.args[1] == b {
		return a.args[0]
	}
	if op == "bvadd" && b.op == "bvsub" && b.args[1] == a {
		return b.args[0]
	}
	if op == "bvsub" && a.op == "bvadd" && a.args[1] == b {
		return a.args[0]
	}
	if op == "bvsub" && a.op == "bvadd" && a.args[0] == b {
		return a.args[1]
	}
	return tt.mk(&Term{op: op, w: w, args: []*Term{a, b}})
}

// Cmp builds a comparison: bvult bvule bvslt bvsle (and derived gt/ge through swapping).
func (tt *TermTable) Cmp(op string, a, b *Term) *Term {
	switch op {
	case "bvugt":
		return tt.Cmp("bvult", b, a)
	case "bvuge":
		return tt.Cmp("bvule", b, a)
	case "bvsgt":
		return tt.Cmp("bvslt", b, a)
	case "bvsge":
		return tt.Cmp("bvsle", b, a)
	}
	if a.w != b.w || a.w <= 0 {
		panic(fmt.Sprintf("cmp %s width mismatch %d %d", op, a.w, b.w))
	}
	if a.isConst() && b.isConst() {
		var c int
		if op == "bvult" || op == "bvule" {
			c = a.val.Cmp(b.val)
		} else {
			c = toSigned(a.val, a.w).Cmp(toSigned(b.val, b.w))
		}
		if op == "bvult" || op == "bvslt" {
			return tt.Bool(c < 0)
		}
		return tt.Bool(c <= 0)
	}
	if a == b {
		return tt.Bool(op == "bvule" || op == "bvsle")
	}
	if a.w == 64 {
		if r, ok := tt.lenCmp(op, a, b); ok {
			return r
		}
	}
	return tt.mk(&Term{op: op, w: 0, args: []*Term{a, b}})
}

func (tt *TermTable) BVNot(a *Term) *Term {
	if a.isConst() {
		return tt.BV(new(big.Int).Xor(a.val, mask(a.w)), a.w)
	}
	return tt.mk(&Term{op: "bvnot", w: a.w, args: []*Term{a}})
}
func (tt *TermTable) BVNeg(a *Term) *Term {
	if a.isConst() {
		return tt.BV(new(big.Int).Neg(a.val), a.w)
	}
	return tt.mk(&Term{op: "bvneg", w: a.w, args: []*Term{a}})
}

func (tt *TermTable) Extract(a *Term, hi, lo int) *Term {
	if hi < lo || hi >= a.w {
		panic(fmt.Sprintf("extract %d %d of %d", hi, lo, a.w))
	}
	if lo == 0 && hi == a.w-1 {
		return a
	}
	if a.isConst() {
		v := new(big.Int).Rsh(a.val, uint(lo))
		return tt.BV(v, hi-lo+1)
	}
	if a.op == "zext" {
		in := a.args[0]
		if hi < in.w {
			return tt.Extract(in, hi, lo)
		}
		if lo >= in.w {
			return tt.BVu(0, hi-lo+1)
		}
	}
	if a.op == "concat" {
		lw := a.args[1].w
		if hi < lw {
			return tt.Extract(a.args[1], hi, lo)
		}
		if lo >= lw {
			return tt.Extract(a.args[0], hi-lw, lo-lw)
		}
	}
	if a.op == "extract" {
		return tt.Extract(a.args[0], hi+a.p2, lo+a.p2)
	}
	if a.op == "ite" && (a.args[1].isConst() || a.args[2].isConst()) {
		return tt.Ite(a.args[0], tt.Extract(a.args[1], hi, lo), tt.Extract(a.args[2], hi, lo))
	}
	return tt.mk(&Term{op: "extract", w: hi - lo + 1, args: []*Term{a}, p1: hi, p2: lo})
}
func (tt *TermTable) ZExt(a *Term, to int) *Term {
	if to == a.w {
		return a
	}
	if to < a.w {
		return tt.Extract(a, to-1, 0)
	}
	if a.isConst() {
		return tt.BV(a.val, to)
	}
	if a.op == "zext" {
		return tt.ZExt(a.args[0], to)
	}
	return tt.mk(&Term{op: "zext", w: to, args: []*Term{a}, p1: to - a.w})
}
func (tt *TermTable) SExt(a *Term, to int) *Term {
	if to == a.w {
		return a
	}
	if to < a.w {
		return tt.Extract(a, to-1, 0)
	}
	if a.isConst() {
		return tt.BV(toSigned(a.val, a.w), to)
	}
	return tt.mk(&Term{op: "sext", w: to, args: []*Term{a}, p1: to - a.w})
}
func (tt *TermTable) Concat(hi, lo *Term) *Term {
	if hi.isConst() && lo.isConst() {
		v := new(big.Int).Lsh(hi.val, uint(lo.w))
		v.Or(v, lo.val)
		return tt.BV(v, hi.w+lo.w)
	}
	if hi.isConst() && hi.val.Sign() == 0 {
		return tt.ZExt(lo, hi.w+lo.w)
	}
	// concat(extract(x,h,m+1), extract(x,m,l)) => extract(x,h,l)
	if hi.op == "extract" && lo.op == "extract" && hi.args[0] == lo.args[0] && hi.p2 == lo.p1+1 {
		return tt.Extract(hi.args[0], hi.p1, lo.p2)
	}
	return tt.mk(&Term{op: "concat", w: hi.w + lo.w, args: []*Term{hi, lo}})
}
// BitLen / ByteLen of a bit-vector as 64-bit terms (kept abstract; comparisons
// with constants are rewritten into range tests on x, see lenCmp).
func (tt *TermTable) BitLen(x *Term) *Term {
	if x.isConst() {
		return tt.BVu(uint64(x.val.BitLen()), 64)
	}
	if x.op == "zext" {
		return tt.BitLen(x.args[0])
	}
	return tt.mk(&Term{op: "bitlen", w: 64, args: []*Term{x}})
}
func (tt *TermTable) ByteLen(x *Term) *Term {
	if x.isConst() {
		return tt.BVu(uint64((x.val.BitLen()+7)/8), 64)
	}
	if x.op == "zext" {
		return tt.ByteLen(x.args[0])
	}
	return tt.mk(&Term{op: "bytelen", w: 64, args: []*Term{x}})
}

// pow2 as constant of width w (or nil if it does not fit)
func (tt *TermTable) ltPow2(x *Term, k uint64) *Term { // x < 2^k
	if k >= uint64(x.w) {
		return tt.Bool(true)
	}
	return tt.Cmp("bvult", x, tt.BV(new(big.Int).Lsh(big.NewInt(1), uint(k)), x.w))
}

// lenLE: len(x) <= c  where len is bitlen (unit 1) or bytelen (unit 8)
func (tt *TermTable) lenLE(l *Term, c *big.Int) *Term {
	if c.Sign() < 0 {
		return tt.Bool(false)
	}
	unit := uint64(1)
	if l.op == "bytelen" {
		unit = 8
	}
	if !c.IsUint64() || c.Uint64() > 1<<20 {
		return tt.Bool(true)
	}
	return tt.ltPow2(l.args[0], c.Uint64()*unit)
}

// lenCmp rewrites (len op const); ok=false if not applicable.
func (tt *TermTable) lenCmp(op string, a, b *Term) (*Term, bool) {
	isLen := func(t *Term) bool { return t.op == "bitlen" || t.op == "bytelen" }
	one := big.NewInt(1)
	switch {
	case isLen(a) && b.isConst():
		c := toSigned(b.val, 64)
		switch op {
		case "bvule", "bvsle":
			if op == "bvule" && c.Sign() < 0 {
				return tt.Bool(true), true
			}
			return tt.lenLE(a, c), true
		case "bvult", "bvslt":
			if op == "bvult" && c.Sign() < 0 {
				return tt.Bool(true), true
			}
			return tt.lenLE(a, new(big.Int).Sub(c, one)), true
		case "=":
			return tt.And(tt.lenLE(a, c), tt.Not(tt.lenLE(a, new(big.Int).Sub(c, one)))), true
		}
	case isLen(b) && a.isConst():
		c := toSigned(a.val, 64)
		switch op {
		case "bvule", "bvsle": // c <= len  <=> !(len <= c-1)
			if op == "bvule" && c.Sign() < 0 {
				return tt.Bool(false), true
			}
			return tt.Not(tt.lenLE(b, new(big.Int).Sub(c, one))), true
		case "bvult", "bvslt": // c < len <=> !(len <= c)
			if op == "bvult" && c.Sign() < 0 {
				return tt.Bool(false), true
			}
			return tt.Not(tt.lenLE(b, c)), true
		}
	}
	return nil, false
}

func (tt *TermTable) Select(arr, idx *Term) *Term {
	return tt.mk(&Term{op: "select", w: 8, args: []*Term{arr, idx}})
}

// UF applies an uninterpreted function (declared on first use).
func (tt *TermTable) UF(name string, w int, args ...*Term) *Term {
	if _, ok := tt.ufs[name]; !ok {
		var sb strings.Builder
		fmt.Fprintf(&sb, "(declare-fun %s (", name)
		for _, a := range args {
			sb.WriteString(sortStr(a.w) + " ")
		}
		fmt.Fprintf(&sb, ") %s)", sortStr(w))
		tt.ufs[name] = sb.String()
		tt.ufList = append(tt.ufList, name)
	}
	return tt.mk(&Term{op: "uf", w: w, name: name, args: args})
}

func sortStr(w int) string {
	switch {
	case w == sortBool:
		return "Bool"
	case w == sortArray:
		return "(Array (_ BitVec 64) (_ BitVec 8))"
	}
	return fmt.Sprintf("(_ BitVec %d)", w)
}

func constStr(t *Term) string {
	if t.w == 0 {
		if t.val.Sign() != 0 {
			return "true"
		}
		return "false"
	}
	if t.w%4 == 0 {
		s := t.val.Text(16)
		return "#x" + strings.Repeat("0", t.w/4-len(s)) + s
	}
	s := t.val.Text(2)
	return "#b" + strings.Repeat("0", t.w-len(s)) + s
}

// String gives a compact human-readable rendering (for evidence samples / debugging).
func (t *Term) String() string {
	return t.str(0)
}
func (t *Term) str(d int) string {
	if t.op == "const" {
		if t.w == 0 {
			return constStr(t)
		}
		if t.w <= 64 {
			return fmt.Sprintf("%d", t.val)
		}
		return "0x" + t.val.Text(16)
	}
	if t.op == "var" {
		return t.name
	}
	if d > 6 {
		return fmt.Sprintf("t%d", t.id)
	}
	var parts []string
	for _, a := range t.args {
		parts = append(parts, a.str(d+1))
	}
	op := t.op
	if op == "extract" {
		op = fmt.Sprintf("extract[%d:%d]", t.p1, t.p2)
	}
	if op == "uf" {
		op = t.name
	}
	return "(" + op + " " + strings.Join(parts, " ") + ")"
}
