package main

// Symbolic CBOR tree nodes and their serialisation as ropes.

import (
	"fmt"
	"strings"
)

type Node struct {
	id      int
	major   int   // 0..7; -1 = raw verbatim rope
	arg     *Term // BV64: value / length / count / tag number / simple value
	wvar    *Term // BV8 in {0,1,2,4,8}: extra head bytes; nil = minimal for arg
	indef   bool  // indefinite length (only ever rejected)
	content Rope  // bstr / tstr content
	kids    []*Node
	raw     Rope
	// map nodes produced by the encoder: entries in range order until sorted
	sortMode int // 0 none, 1 length-first, 2 bytewise
	sorted   bool
	name     string
	neg      *Term // ints only: symbolic sign (major type 1 iff neg); nil = major as stated
}

func (e *Engine) newNode(major int, arg *Term) *Node {
	e.nextObj++
	return &Node{id: e.nextObj, major: major, arg: arg, sorted: true}
}

// minWidth gives the number of extra head bytes of the shortest head for arg.
func (e *Engine) minWidth(arg *Term) *Term {
	tt := e.tt
	w := tt.BVu(8, 8)
	w = tt.Ite(tt.Cmp("bvult", arg, e.c64(1<<32)), tt.BVu(4, 8), w)
	w = tt.Ite(tt.Cmp("bvult", arg, e.c64(1<<16)), tt.BVu(2, 8), w)
	w = tt.Ite(tt.Cmp("bvult", arg, e.c64(1<<8)), tt.BVu(1, 8), w)
	w = tt.Ite(tt.Cmp("bvult", arg, e.c64(24)), tt.BVu(0, 8), w)
	return w
}

func (e *Engine) nodeWidth(n *Node) *Term {
	if n.wvar != nil {
		return n.wvar
	}
	return e.minWidth(n.arg)
}

// widthLegal: constraint that wvar is one of the legal forms and arg fits.
func (e *Engine) widthLegal(w, arg *Term) *Term {
	tt := e.tt
	return tt.Or(
		tt.And(tt.Eq(w, tt.BVu(0, 8)), tt.Cmp("bvult", arg, e.c64(24))),
		tt.And(tt.Eq(w, tt.BVu(1, 8)), tt.Cmp("bvult", arg, e.c64(1<<8))),
		tt.And(tt.Eq(w, tt.BVu(2, 8)), tt.Cmp("bvult", arg, e.c64(1<<16))),
		tt.And(tt.Eq(w, tt.BVu(4, 8)), tt.Cmp("bvult", arg, e.c64(1<<32))),
		tt.Eq(w, tt.BVu(8, 8)),
	)
}

func (e *Engine) headLen(n *Node) *Term {
	if n.major < 0 {
		return e.c64(0)
	}
	return e.tt.Bin("bvadd", e.c64(1), e.tt.ZExt(e.nodeWidth(n), 64))
}

// headByte returns byte i of the head as a term (valid only if i <= width).
func (e *Engine) headByte(n *Node, i int) *Term {
	tt := e.tt
	if n.major < 0 {
		return e.ropeIndex(n.raw, e.c64(uint64(i)))
	}
	w := e.nodeWidth(n)
	if i == 0 {
		var low *Term
		if n.indef {
			low = tt.BVu(31, 5)
		} else {
			low = tt.BVu(27, 5)
			low = tt.Ite(tt.Eq(w, tt.BVu(4, 8)), tt.BVu(26, 5), low)
			low = tt.Ite(tt.Eq(w, tt.BVu(2, 8)), tt.BVu(25, 5), low)
			low = tt.Ite(tt.Eq(w, tt.BVu(1, 8)), tt.BVu(24, 5), low)
			low = tt.Ite(tt.Eq(w, tt.BVu(0, 8)), tt.Extract(n.arg, 4, 0), low)
		}
		if n.neg != nil {
			return tt.Concat(tt.Ite(n.neg, tt.BVu(1, 3), tt.BVu(0, 3)), low)
		}
		return tt.Concat(tt.BVu(uint64(n.major), 3), low)
	}
	// byte i (1-based) of a w-byte big endian arg: arg byte index (w-i) from low end
	res := tt.BVu(0, 8)
	for _, wc := range []int{8, 4, 2, 1} {
		if i <= wc {
			res = tt.Ite(tt.Eq(w, tt.BVu(uint64(wc), 8)), e.byteOf(n.arg, wc-i), res)
		}
	}
	return res
}

// expandHead turns the head into explicit bytes; forks on the width.
func (e *Engine) expandHead(n *Node) Rope {
	if n.major < 0 {
		return nil
	}
	w := e.nodeWidth(n)
	k, ok := e.concretizeAmong(w, []uint64{0, 1, 2, 4, 8})
	if !ok {
		e.unsupported("head width not concretizable")
	}
	var out Rope
	for i := 0; i <= int(k); i++ {
		b := e.headByte(n, i)
		if b.isConst() {
			out = ropeConcat(out, Rope{SegLit{[]byte{byte(b.u64())}}})
		} else {
			out = append(out, SegSym{b})
		}
	}
	return out
}

// bodyRope is everything after the head.
func (e *Engine) bodyRope(n *Node) Rope {
	switch n.major {
	case 2, 3:
		return n.content
	case 4, 5, 6:
		e.resolveOrder(n)
		var out Rope
		for _, k := range n.kids {
			out = append(out, SegItem{k})
		}
		if n.indef {
			out = append(out, SegLit{[]byte{0xff}})
		}
		return out
	}
	return nil
}

func (e *Engine) unfoldItem(n *Node) Rope {
	if n.major < 0 {
		return n.raw
	}
	return ropeConcat(Rope{SegHead{n}}, e.bodyRope(n))
}

func (e *Engine) itemLen(n *Node) *Term {
	if n.major < 0 {
		return e.ropeLen(n.raw)
	}
	l := e.headLen(n)
	switch n.major {
	case 2, 3:
		l = e.tt.Bin("bvadd", l, e.ropeLen(n.content))
	case 4, 5, 6:
		for _, k := range n.kids {
			l = e.tt.Bin("bvadd", l, e.itemLen(k))
		}
		if n.indef {
			l = e.tt.Bin("bvadd", l, e.c64(1))
		}
	}
	return l
}

func (e *Engine) nodeString(n *Node, d int) string {
	if n == nil {
		return "<nil>"
	}
	if d > 5 {
		return "…"
	}
	w := ""
	if n.wvar != nil {
		w = fmt.Sprintf("/w=%s", n.wvar)
	}
	switch n.major {
	case -1:
		return "raw{" + e.ropeString(n.raw) + "}"
	case 0:
		return fmt.Sprintf("uint(%s)%s", n.arg, w)
	case 1:
		return fmt.Sprintf("nint(-1-%s)%s", n.arg, w)
	case 2:
		return fmt.Sprintf("bstr%s[%s]", w, e.ropeString(n.content))
	case 3:
		return fmt.Sprintf("tstr%s[%s]", w, e.ropeString(n.content))
	case 4, 5:
		var parts []string
		for _, k := range n.kids {
			parts = append(parts, e.nodeString(k, d+1))
		}
		nm := "array"
		if n.major == 5 {
			nm = "map"
		}
		if n.indef {
			nm += "*"
		}
		return fmt.Sprintf("%s%s(%s)", nm, w, strings.Join(parts, ", "))
	case 6:
		return fmt.Sprintf("tag(%s)%s(%s)", n.arg, w, e.nodeString(n.kids[0], d+1))
	case 7:
		return fmt.Sprintf("simple(%s)%s", n.arg, w)
	}
	return "?"
}

// fixMajor resolves a symbolic integer sign (forks if both signs are feasible).
func (e *Engine) fixMajor(n *Node) *Node {
	if n.neg != nil {
		if e.branch(n.neg) {
			n.major = 1
		} else {
			n.major = 0
		}
		n.neg = nil
	}
	return n
}
