package main

// Byte strings as ropes of segments; the solver only ever sees scalars.

import (
	"fmt"
	"strings"
)

type Seg interface{}

type SegLit struct{ b []byte }               // concrete bytes (len>0)
type SegSym struct{ t *Term }                // one byte, BV8
type SegBlob struct{ arr, off, n *Term }     // window into opaque array
type SegZero struct{ n *Term }               // n zero bytes
type SegIntBE struct{ x, n *Term }           // low n bytes of x, big endian (x any width)
type SegHead struct{ node *Node }            // head bytes of a CBOR node
type SegItem struct{ node *Node }            // a whole CBOR item

type Rope []Seg

func (e *Engine) segLen(s Seg) *Term {
	switch x := s.(type) {
	case SegLit:
		return e.c64(uint64(len(x.b)))
	case SegSym:
		return e.c64(1)
	case SegBlob:
		return x.n
	case SegZero:
		return x.n
	case SegIntBE:
		return x.n
	case SegHead:
		return e.headLen(x.node)
	case SegItem:
		return e.itemLen(x.node)
	}
	panic("segLen")
}

func (e *Engine) ropeLen(r Rope) *Term {
	acc := e.c64(0)
	for _, s := range r {
		acc = e.tt.Bin("bvadd", acc, e.segLen(s))
	}
	return acc
}

func ropeLit(b []byte) Rope {
	if len(b) == 0 {
		return nil
	}
	return Rope{SegLit{b: append([]byte(nil), b...)}}
}

func ropeConcat(a, b Rope) Rope {
	if len(a) == 0 {
		return b
	}
	if len(b) == 0 {
		return a
	}
	// Zero(c - bytelen(x)) ++ IntBE(x, bytelen(x))  ==  IntBE(x, c)   (left padding of a minimal big-endian integer)
	if z, ok := a[len(a)-1].(SegZero); ok {
		if ib, ok := b[0].(SegIntBE); ok && ib.n.op == "bytelen" && ib.n.args[0] == ib.x &&
			z.n.op == "bvsub" && z.n.args[1] == ib.n {
			merged := SegIntBE{ib.x, z.n.args[0]}
			out := make(Rope, 0, len(a)+len(b))
			out = append(out, a[:len(a)-1]...)
			out = append(out, merged)
			return append(out, b[1:]...)
		}
	}
	out := make(Rope, 0, len(a)+len(b))
	out = append(out, a...)
	// merge adjacent literals
	if la, ok := out[len(out)-1].(SegLit); ok {
		if lb, ok := b[0].(SegLit); ok {
			out[len(out)-1] = SegLit{b: append(append([]byte(nil), la.b...), lb.b...)}
			return append(out, b[1:]...)
		}
	}
	return append(out, b...)
}

// concreteBytes returns the bytes of r if it is entirely literal.
func ropeConcrete(r Rope) ([]byte, bool) {
	var out []byte
	for _, s := range r {
		switch x := s.(type) {
		case SegLit:
			out = append(out, x.b...)
		case SegSym:
			if !x.t.isConst() {
				return nil, false
			}
			out = append(out, byte(x.t.u64()))
		default:
			return nil, false
		}
	}
	return out, true
}

// unfoldFirst rewrites the first segment one level (Item -> Head+content,
// Head -> bytes), forking on the head width if necessary.
func (e *Engine) unfoldSeg(s Seg) Rope {
	switch x := s.(type) {
	case SegItem:
		return e.unfoldItem(x.node)
	case SegHead:
		return e.expandHead(x.node)
	case SegIntBE:
		n, ok := e.concretize(x.n, 80)
		if !ok {
			e.unsupported("IntBE of unbounded length")
		}
		var out Rope
		for i := int(n) - 1; i >= 0; i-- {
			out = append(out, SegSym{e.byteOf(x.x, i)})
		}
		return out
	}
	e.unsupported(fmt.Sprintf("unfold of %T", s))
	return nil
}

// byteOf returns byte k (from the least significant end) of x.
func (e *Engine) byteOf(x *Term, k int) *Term {
	if 8*k >= x.w {
		return e.tt.BVu(0, 8)
	}
	hi := 8*k + 7
	if hi >= x.w {
		return e.tt.ZExt(e.tt.Extract(x, x.w-1, 8*k), 8)
	}
	return e.tt.Extract(x, hi, 8*k)
}

// splitAt splits r at byte position pos (BV64). Bounds must have been checked.
func (e *Engine) splitAt(r Rope, pos *Term) (Rope, Rope) {
	if pos.isConst() && pos.u64() == 0 {
		return nil, r
	}
	acc := e.c64(0)
	for i := 0; i < len(r); i++ {
		s := r[i]
		if acc == pos {
			return r[:i:i], r[i:]
		}
		l := e.segLen(s)
		end := e.tt.Bin("bvadd", acc, l)
		if end == pos {
			return r[: i+1 : i+1], r[i+1:]
		}
		// is pos >= end ?
		if e.branch(e.tt.Cmp("bvule", end, pos)) {
			acc = end
			continue
		}
		if e.branch(e.tt.Cmp("bvule", pos, acc)) {
			return r[:i:i], r[i:]
		}
		// strictly inside s
		rel := e.tt.Bin("bvsub", pos, acc)
		var a, b Seg
		switch x := s.(type) {
		case SegLit:
			k, ok := e.concretize(rel, 0)
			if !ok {
				e.unsupported("symbolic split inside literal")
			}
			a, b = SegLit{x.b[:k]}, SegLit{x.b[k:]}
		case SegBlob:
			a = SegBlob{x.arr, x.off, rel}
			b = SegBlob{x.arr, e.tt.Bin("bvadd", x.off, rel), e.tt.Bin("bvsub", x.n, rel)}
		case SegZero:
			a = SegZero{rel}
			b = SegZero{e.tt.Bin("bvsub", x.n, rel)}
		default:
			// unfold and retry on the unfolded rope
			u := e.unfoldSeg(s)
			nr := make(Rope, 0, len(r)+len(u))
			nr = append(nr, r[:i]...)
			nr = append(nr, u...)
			nr = append(nr, r[i+1:]...)
			return e.splitAt(nr, pos)
		}
		left := append(append(Rope{}, r[:i]...), a)
		right := append(Rope{b}, r[i+1:]...)
		return left, right
	}
	return r, nil
}

func (e *Engine) ropeSlice(r Rope, lo, hi *Term) Rope {
	_, rest := e.splitAt(r, lo)
	mid, _ := e.splitAt(rest, e.tt.Bin("bvsub", hi, lo))
	return mid
}

// ropeReplace overwrites n bytes at off with repl (len(repl) == n).
func (e *Engine) ropeReplace(r Rope, off, n *Term, repl Rope) Rope {
	left, rest := e.splitAt(r, off)
	_, right := e.splitAt(rest, n)
	return ropeConcat(ropeConcat(left, repl), right)
}

// ropeIndex returns byte i of r as a BV8 term (bounds already checked).
func (e *Engine) ropeIndex(r Rope, i *Term) *Term {
	acc := e.c64(0)
	for k := 0; k < len(r); k++ {
		s := r[k]
		l := e.segLen(s)
		end := e.tt.Bin("bvadd", acc, l)
		if !e.branch(e.tt.Cmp("bvult", i, end)) {
			acc = end
			continue
		}
		rel := e.tt.Bin("bvsub", i, acc)
		switch x := s.(type) {
		case SegLit:
			if rel.isConst() {
				return e.tt.BVu(uint64(x.b[rel.u64()]), 8)
			}
			// symbolic index into literal: ite chain
			res := e.tt.BVu(0, 8)
			for j := len(x.b) - 1; j >= 0; j-- {
				res = e.tt.Ite(e.tt.Eq(rel, e.c64(uint64(j))), e.tt.BVu(uint64(x.b[j]), 8), res)
			}
			return res
		case SegSym:
			return x.t
		case SegBlob:
			return e.tt.Select(x.arr, e.tt.Bin("bvadd", x.off, rel))
		case SegZero:
			return e.tt.BVu(0, 8)
		case SegHead:
			if rel.isConst() {
				return e.headByte(x.node, int(rel.u64()))
			}
			return e.ropeIndex(e.expandHead(x.node), rel)
		case SegItem:
			if rel.isConst() && rel.u64() == 0 {
				return e.headByte(x.node, 0)
			}
			return e.ropeIndex(e.unfoldItem(x.node), rel)
		case SegIntBE:
			return e.ropeIndex(e.unfoldSeg(s), rel)
		}
	}
	e.unsupported("ropeIndex past end")
	return nil
}

// ropeEq builds a Bool term that holds iff the two byte strings are equal.
// Alignment decisions that depend on symbolic lengths fork the path.
func (e *Engine) ropeEq(a, b Rope) *Term {
	la, lb := e.ropeLen(a), e.ropeLen(b)
	conj := []*Term{e.tt.Eq(la, lb)}
	if conj[0].isFalse() {
		return conj[0]
	}
	// cheap refutation on the first byte (avoids a fork on the lengths)
	if fa, ok := e.firstByte(a); ok {
		if fb, ok := e.firstByte(b); ok && e.tt.Eq(fa, fb).isFalse() {
			return e.tt.Bool(false)
		}
	}
	// under the assumption of equal length, walk both
	if !conj[0].isTrue() {
		// need the assumption for alignment decisions: fork on it
		if !e.branch(conj[0]) {
			return e.tt.Bool(false)
		}
		conj = nil
	}
	for len(a) > 0 && len(b) > 0 {
		sa, sb := a[0], b[0]
		// drop empty segments
		if l := e.segLen(sa); l.isConst() && l.u64() == 0 {
			a = a[1:]
			continue
		}
		if l := e.segLen(sb); l.isConst() && l.u64() == 0 {
			b = b[1:]
			continue
		}
		// whole items: byte equality <=> tree equality
		if ia, ok := sa.(SegItem); ok {
			if ib, ok := sb.(SegItem); ok {
				c := e.nodeEq(ia.node, ib.node)
				if c.isFalse() {
					return c
				}
				conj = append(conj, c)
				a, b = a[1:], b[1:]
				continue
			}
		}
		// identical opaque segments
		if t, ok := e.segSame(sa, sb); ok {
			if !t.isTrue() {
				// equal lengths needed to stay aligned
				la, lb := e.segLen(sa), e.segLen(sb)
				if la != lb {
					if !e.branch(e.tt.Eq(la, lb)) {
						// lengths differ: fall back to unfolding / generic path
						goto generic
					}
				}
				conj = append(conj, t)
			}
			a, b = a[1:], b[1:]
			continue
		}
	generic:
		// make both heads byte-like or splittable
		if isFolded(sa) {
			a = append(e.unfoldSeg(sa), a[1:]...)
			continue
		}
		if isFolded(sb) {
			b = append(e.unfoldSeg(sb), b[1:]...)
			continue
		}
		// now sa, sb in {Lit, Sym, Blob, Zero}
		la, lb := e.segLen(sa), e.segLen(sb)
		if la != lb {
			if e.branch(e.tt.Cmp("bvult", la, lb)) {
				x, y := e.splitAt(Rope{sb}, la)
				b = append(append(Rope{}, x...), append(y, b[1:]...)...)
				continue
			} else if e.branch(e.tt.Cmp("bvult", lb, la)) {
				x, y := e.splitAt(Rope{sa}, lb)
				a = append(append(Rope{}, x...), append(y, a[1:]...)...)
				continue
			}
		}
		// equal length segments
		if e.segLenZero(la) {
			a, b = a[1:], b[1:]
			continue
		}
		conj = append(conj, e.segEqSameLen(sa, sb, la))
		a, b = a[1:], b[1:]
	}
	for _, s := range a {
		if !e.segLenZero(e.segLen(s)) {
			return e.tt.Bool(false)
		}
	}
	for _, s := range b {
		if !e.segLenZero(e.segLen(s)) {
			return e.tt.Bool(false)
		}
	}
	return e.tt.And(conj...)
}

func (e *Engine) segLenZero(l *Term) bool {
	if l.isConst() {
		return l.u64() == 0
	}
	return e.branch(e.tt.Eq(l, e.c64(0)))
}

func isFolded(s Seg) bool {
	switch s.(type) {
	case SegHead, SegItem, SegIntBE:
		return true
	}
	return false
}

// segSame recognises structurally equal opaque segments; returns the
// condition under which they are equal (sufficient and necessary given equal length).
func (e *Engine) segSame(a, b Seg) (*Term, bool) {
	switch x := a.(type) {
	case SegItem:
		if y, ok := b.(SegItem); ok && x.node == y.node {
			return e.tt.Bool(true), true
		}
	case SegHead:
		if y, ok := b.(SegHead); ok {
			if x.node == y.node {
				return e.tt.Bool(true), true
			}
			if x.node.major == y.node.major && x.node.neg == nil && y.node.neg == nil && x.node.wvar == nil && y.node.wvar == nil && !x.node.indef && !y.node.indef && x.node.major >= 0 {
				return e.tt.Eq(x.node.arg, y.node.arg), true
			}
		}
	case SegBlob:
		if y, ok := b.(SegBlob); ok && x.arr == y.arr && x.off == y.off {
			return e.tt.Eq(x.n, y.n), true
		}
	case SegIntBE:
		if y, ok := b.(SegIntBE); ok && x.x == y.x {
			return e.tt.Eq(x.n, y.n), true
		}
	case SegZero:
		if y, ok := b.(SegZero); ok {
			return e.tt.Eq(x.n, y.n), true
		}
	}
	return nil, false
}

// segEqSameLen: a,b in {Lit,Sym,Blob,Zero} with provably equal length l.
func (e *Engine) segEqSameLen(a, b Seg, l *Term) *Term {
	if k, ok := e.constOrSmall(l); ok {
		var conj []*Term
		for i := uint64(0); i < k; i++ {
			conj = append(conj, e.tt.Eq(e.segByte(a, i), e.segByte(b, i)))
		}
		return e.tt.And(conj...)
	}
	// symbolic length: only blob/zero combos
	ba, okA := a.(SegBlob)
	bb, okB := b.(SegBlob)
	if okA && okB {
		if ba.arr == bb.arr {
			return e.tt.Or(e.tt.Eq(ba.off, bb.off), e.tt.UF("blobeq", 0, ba.arr, ba.off, bb.arr, bb.off, l))
		}
		return e.tt.UF("blobeq", 0, ba.arr, ba.off, bb.arr, bb.off, l)
	}
	if _, z1 := a.(SegZero); z1 {
		if _, z2 := b.(SegZero); z2 {
			return e.tt.Bool(true)
		}
	}
	if okA {
		return e.tt.UF("blobzero", 0, ba.arr, ba.off, l)
	}
	if okB {
		return e.tt.UF("blobzero", 0, bb.arr, bb.off, l)
	}
	e.unsupported("segEqSameLen")
	return nil
}

func (e *Engine) constOrSmall(l *Term) (uint64, bool) {
	if l.isConst() {
		return l.u64(), true
	}
	return 0, false
}

func (e *Engine) segByte(s Seg, i uint64) *Term {
	switch x := s.(type) {
	case SegLit:
		return e.tt.BVu(uint64(x.b[i]), 8)
	case SegSym:
		return x.t
	case SegBlob:
		return e.tt.Select(x.arr, e.tt.Bin("bvadd", x.off, e.c64(i)))
	case SegZero:
		return e.tt.BVu(0, 8)
	}
	panic("segByte")
}

func (e *Engine) ropeString(r Rope) string {
	var sb strings.Builder
	for i, s := range r {
		if i > 0 {
			sb.WriteString(" ++ ")
		}
		switch x := s.(type) {
		case SegLit:
			fmt.Fprintf(&sb, "h'%x'", x.b)
		case SegSym:
			fmt.Fprintf(&sb, "byte(%s)", x.t)
		case SegBlob:
			fmt.Fprintf(&sb, "blob(%s,off=%s,n=%s)", x.arr, x.off, x.n)
		case SegZero:
			fmt.Fprintf(&sb, "zero(%s)", x.n)
		case SegIntBE:
			fmt.Fprintf(&sb, "intBE(%s,n=%s)", x.x, x.n)
		case SegHead:
			fmt.Fprintf(&sb, "head(#%d mt%d arg=%s)", x.node.id, x.node.major, x.node.arg)
		case SegItem:
			fmt.Fprintf(&sb, "item(#%d %s)", x.node.id, e.nodeString(x.node, 0))
		}
	}
	if len(r) == 0 {
		return "h''"
	}
	return sb.String()
}

// nodeEq: the two items have identical encodings (iff).
func (e *Engine) nodeEq(a, b *Node) *Term {
	tt := e.tt
	if a == b {
		return tt.Bool(true)
	}
	if a.major < 0 || b.major < 0 {
		a2, b2 := e.derefRaw(a), e.derefRaw(b)
		if a2.major < 0 || b2.major < 0 {
			// unparsable raw: compare as ropes
			ra, rb := e.unfoldItem(a2), e.unfoldItem(b2)
			return e.ropeEq(ra, rb)
		}
		a, b = a2, b2
		if a == b {
			return tt.Bool(true)
		}
	}
	var conj []*Term
	// major type
	switch {
	case a.neg == nil && b.neg == nil:
		if a.major != b.major {
			return tt.Bool(false)
		}
	default:
		ma, mb := tt.Bool(a.major == 1), tt.Bool(b.major == 1)
		if a.neg != nil {
			ma = a.neg
		} else if a.major > 1 {
			return tt.Bool(false)
		}
		if b.neg != nil {
			mb = b.neg
		} else if b.major > 1 {
			return tt.Bool(false)
		}
		conj = append(conj, tt.Eq(ma, mb))
	}
	if a.indef != b.indef {
		return tt.Bool(false)
	}
	conj = append(conj, tt.Eq(a.arg, b.arg))
	if a.wvar != nil || b.wvar != nil {
		conj = append(conj, tt.Eq(e.nodeWidth(a), e.nodeWidth(b)))
	}
	switch a.major {
	case 2, 3:
		conj = append(conj, e.ropeEq(a.content, b.content))
	case 4, 5, 6:
		if len(a.kids) != len(b.kids) {
			return tt.Bool(false)
		}
		if a.major == 5 && (!a.sorted || !b.sorted) && a.sortMode == b.sortMode {
			// same entries in the same insertion order are sufficient
			var c2 []*Term
			for i := range a.kids {
				c2 = append(c2, e.nodeEq(a.kids[i], b.kids[i]))
			}
			all := tt.And(c2...)
			if !all.isFalse() && e.mustBe(all) {
				return tt.And(conj...)
			}
		}
		e.resolveOrder(a)
		e.resolveOrder(b)
		for i := range a.kids {
			conj = append(conj, e.nodeEq(a.kids[i], b.kids[i]))
		}
	}
	return tt.And(conj...)
}

// firstByte: the first byte of a rope if its first segment is certainly non-empty.
func (e *Engine) firstByte(r Rope) (*Term, bool) {
	if len(r) == 0 {
		return nil, false
	}
	switch x := r[0].(type) {
	case SegLit:
		return e.tt.BVu(uint64(x.b[0]), 8), true
	case SegSym:
		return x.t, true
	case SegHead:
		if x.node.major >= 0 {
			return e.headByte(x.node, 0), true
		}
	case SegItem:
		if x.node.major >= 0 {
			return e.headByte(x.node, 0), true
		}
	}
	return nil, false
}
