package main

func (e *Engine) resolveOrder(n *Node) {}

func (e *Engine) cborMarshal(opts *StructV, v Iface) Value {
	e.unsupported("cbor marshal model not built")
	return nil
}
func (e *Engine) cborUnmarshal(opts *StructV, data BytesV, target Iface) Value {
	e.unsupported("cbor unmarshal model not built")
	return nil
}
func (e *Engine) cborWellformed(opts *StructV, data BytesV) Value {
	e.unsupported("cbor wellformed model not built")
	return nil
}
