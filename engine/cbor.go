package main

// Model of fxamacker/cbor v2.5.0 as an option-parameterised tree codec
// (DESIGN.md §4.1). Everything here is trusted base, validated differentially.

import (
	"fmt"
	"go/types"
	"math"
	"math/big"
	"strings"
	"unicode/utf8"

	"golang.org/x/tools/go/ssa"
)

const cborPath = "github.com/fxamacker/cbor/v2"

// optionsModelled: the option fields the tree model interprets; any other field of the mode's option
// struct must have its zero value (otherwise the model would silently ignore a configuration change)
var optionsModelled = map[string]map[string]bool{
	"DecOptions": {"DupMapKey": true, "IndefLength": true, "IntDec": true, "MaxNestedLevels": true, "TagsMd": true},
	"EncOptions": {"NilContainers": true, "Sort": true, "TagsMd": true, "IndefLength": true},
}

func (e *Engine) checkOptionsModelled(sv *StructV, typeName string) {
	if e.optsChecked[sv] {
		return
	}
	if e.optsChecked == nil {
		e.optsChecked = map[*StructV]bool{}
	}
	e.optsChecked[sv] = true
	st := e.lookupType(cborPath, typeName).Underlying().(*types.Struct)
	for i := 0; i < st.NumFields() && i < len(sv.fields); i++ {
		name := st.Field(i).Name()
		if optionsModelled[typeName][name] {
			continue
		}
		switch v := sv.fields[i].(type) {
		case *Term:
			if !v.isConst() || v.u64() != 0 {
				e.unsupported("cbor " + typeName + "." + name + " is set but not interpreted by the model")
			}
		case Iface:
			if v.typ != nil {
				e.unsupported("cbor " + typeName + "." + name + " is set but not interpreted by the model")
			}
		}
	}
}

func (e *Engine) optField(sv *StructV, typeName, field string) uint64 {
	if idx, ok := e.Program.fieldCache.Load(typeName + "." + field); ok {
		t, ok := sv.fields[idx.(int)].(*Term)
		if !ok || !t.isConst() {
			e.unsupported("non-constant cbor option " + field)
		}
		return t.u64()
	}
	st := e.lookupType(cborPath, typeName).Underlying().(*types.Struct)
	for i := 0; i < st.NumFields(); i++ {
		if st.Field(i).Name() == field {
			e.Program.fieldCache.Store(typeName+"."+field, i)
			t, ok := sv.fields[i].(*Term)
			if !ok || !t.isConst() {
				e.unsupported("non-constant cbor option " + field)
			}
			return t.u64()
		}
	}
	e.unsupported("cbor option field not found: " + field)
	return 0
}

// cborConst reads a named constant of the cbor package from its SSA (not from my reading of the source).
func (e *Engine) cborConst(name string) uint64 {
	if v, ok := e.Program.constCache.Load(name); ok {
		return v.(uint64)
	}
	v := e.cborConst0(name)
	e.Program.constCache.Store(name, v)
	return v
}

func (e *Engine) cborConst0(name string) uint64 {
	for _, p := range e.prog.AllPackages() {
		if p.Pkg.Path() == cborPath {
			if c, ok := p.Members[name].(*ssa.NamedConst); ok {
				return c.Value.Uint64()
			}
		}
	}
	e.unsupported("cbor constant not found: " + name)
	return 0
}

func namedIs(t types.Type, pkg, name string) bool {
	n, ok := t.(*types.Named)
	return ok && n.Obj().Pkg() != nil && n.Obj().Pkg().Path() == pkg && n.Obj().Name() == name
}

// findMethod looks for a method in the method set of T or *T.
func (e *Engine) findMethod(t types.Type, name string) (*ssa.Function, bool) {
	if _, isPtr := t.Underlying().(*types.Pointer); !isPtr {
		if _, isIface := t.Underlying().(*types.Interface); isIface {
			return nil, false
		}
	}
	ms := e.prog.MethodSets.MethodSet(t)
	for i := 0; i < ms.Len(); i++ {
		if ms.At(i).Obj().Name() == name {
			return e.prog.MethodValue(ms.At(i)), false
		}
	}
	if _, isPtr := t.(*types.Pointer); !isPtr {
		ms = e.prog.MethodSets.MethodSet(types.NewPointer(t))
		for i := 0; i < ms.Len(); i++ {
			if ms.At(i).Obj().Name() == name {
				return e.prog.MethodValue(ms.At(i)), true
			}
		}
	}
	return nil, false
}

// sortMode maps the option value to 0 none / 1 length-first / 2 bytewise.
func (e *Engine) sortMode(v uint64) int {
	switch v {
	case e.cborConst("SortNone"):
		return 0
	case e.cborConst("SortLengthFirst"):
		return 1
	case e.cborConst("SortBytewiseLexical"):
		return 2
	}
	e.unsupported("unknown cbor sort mode")
	return 0
}

// ---- encoding --------------------------------------------------------------------------------------

type encCtx struct {
	sort          int
	tagsForbidden bool
	nilAsNull     bool
}

func (e *Engine) cborMarshal(opts *StructV, v Iface) Value {
	e.checkOptionsModelled(opts, "EncOptions")
	ctx := encCtx{
		sort:          e.sortMode(e.optField(opts, "EncOptions", "Sort")),
		tagsForbidden: e.optField(opts, "EncOptions", "TagsMd") == e.cborConst("TagsForbidden"),
		nilAsNull:     e.optField(opts, "EncOptions", "NilContainers") == e.cborConst("NilContainerAsNull"),
	}
	node, err := e.encodeValue(ctx, v.val, v.typ)
	if err.typ != nil {
		return TupleV{e.zero(types.NewSlice(types.Typ[types.Uint8])), err}
	}
	return TupleV{e.bytesFromRope(Rope{SegItem{node}}), Iface{}}
}

func (e *Engine) nullNode() *Node {
	n := e.newNode(7, e.c64(22))
	return n
}

func (e *Engine) rawNode(r Rope) *Node {
	n := e.newNode(-1, nil)
	n.raw = r
	return n
}

func (e *Engine) encodeValue(ctx encCtx, v Value, t types.Type) (*Node, Iface) {
	tt := e.tt
	if t == nil {
		return e.nullNode(), Iface{}
	}
	// pointers: nil -> null, else indirect
	if pt, ok := t.Underlying().(*types.Pointer); ok {
		p := v.(PtrV)
		// a pointer type that itself implements Marshaler via pointer receiver is handled below on the element
		if p.isNil() {
			return e.nullNode(), Iface{}
		}
		et := pt.Elem()
		if fn, ptrRecv := e.findMethod(et, "MarshalCBOR"); fn != nil && !isSpecialCborType(et) {
			var recv Value = p
			if !ptrRecv {
				recv = e.load(p)
			}
			return e.callMarshaler(fn, recv)
		}
		return e.encodeValue(ctx, e.load(p), et)
	}
	// special types of the cbor package
	switch {
	case namedIs(t, cborPath, "RawMessage"):
		b := v.(BytesV)
		if e.branch(tt.Eq(b.n, e.c64(0))) {
			return e.nullNode(), Iface{}
		}
		return e.rawNode(e.bytesRope(b)), Iface{}
	case namedIs(t, cborPath, "Tag"):
		if ctx.tagsForbidden {
			return nil, e.mkErr("cbor: cannot encode cbor.Tag when TagsMd is TagsForbidden")
		}
		sv := v.(*StructV)
		num := sv.fields[0].(*Term)
		content := sv.fields[1].(Iface)
		if content.typ == nil && e.branch(tt.Eq(num, e.c64(0))) {
			return e.nullNode(), Iface{}
		}
		kid, err := e.encodeValue(ctx, content.val, content.typ)
		if err.typ != nil {
			return nil, err
		}
		n := e.newNode(6, num)
		n.kids = []*Node{kid}
		return n, Iface{}
	case namedIs(t, cborPath, "SimpleValue"):
		return e.newNode(7, tt.ZExt(v.(*Term), 64)), Iface{}
	case namedIs(t, cborPath, "ByteString"):
		s := v.(StrV)
		n := e.newNode(2, e.ropeLen(s.r))
		n.content = s.r
		return n, Iface{}
	case isBigInt(t):
		// BigIntConvertShortest (default): values that fit the CBOR integer range are integers
		b := v.(BigV)
		if b.mag.w > 72 {
			e.unsupported("encoding of a wide big.Int")
		}
		m := tt.ZExt(b.mag, 72)
		if e.branch(b.neg) {
			arg := tt.Bin("bvsub", m, tt.BVu(1, 72))
			if e.branch(tt.Cmp("bvult", arg, tt.BV(new(big.Int).Lsh(big.NewInt(1), 64), 72))) {
				return e.newNode(1, tt.Extract(arg, 63, 0)), Iface{}
			}
		} else if e.branch(tt.Cmp("bvult", m, tt.BV(new(big.Int).Lsh(big.NewInt(1), 64), 72))) {
			return e.newNode(0, tt.Extract(m, 63, 0)), Iface{}
		}
		e.unsupported("encoding of a big.Int outside the CBOR integer range (bignum tags are outside the modelled data model)")
	case namedIs(t, "time", "Time"):
		e.unsupported("encoding of " + t.String() + " (outside the modelled data model)")
	}
	if fn, ptrRecv := e.findMethod(t, "MarshalCBOR"); fn != nil {
		var recv Value = v
		if ptrRecv {
			recv = PtrV{cell: e.newCell(v, "marshaler copy")}
		}
		return e.callMarshaler(fn, recv)
	}
	switch u := t.Underlying().(type) {
	case *types.Basic:
		switch {
		case u.Info()&types.IsBoolean != 0:
			return e.newNode(7, tt.Ite(v.(*Term), e.c64(21), e.c64(20))), Iface{}
		case u.Info()&types.IsInteger != 0:
			w, signed, _ := intWidth(u)
			x := v.(*Term)
			if !signed {
				return e.newNode(0, tt.ZExt(x, 64)), Iface{}
			}
			x64 := tt.SExt(x, 64)
			_ = w
			neg := tt.Cmp("bvslt", x64, e.c64(0))
			if neg.isConst() {
				if neg.isTrue() {
					return e.newNode(1, tt.BVNot(x64)), Iface{}
				}
				return e.newNode(0, x64), Iface{}
			}
			n := e.newNode(0, tt.Ite(neg, tt.BVNot(x64), x64))
			n.neg = neg
			return n, Iface{}
		case u.Info()&types.IsString != 0:
			s := v.(StrV)
			n := e.newNode(3, e.ropeLen(s.r))
			n.content = s.r
			return n, Iface{}
		case u.Info()&types.IsFloat != 0:
			// ShortestFloatNone (default): a float64 is always 8 bytes; the bit pattern is carried opaquely
			var bits *Term
			if o, ok := v.(OpaqueV); ok {
				switch d := o.data.(type) {
				case *Term:
					bits = d
				case float64:
					bits = e.c64(math.Float64bits(d))
				}
			}
			if bits == nil {
				bits = tt.Var(e.freshName("floatbits"), 64)
			}
			n := e.newNode(7, bits)
			n.wvar = tt.BVu(8, 8)
			return n, Iface{}
		}
	case *types.Slice:
		if isByteSlice(t) {
			b := v.(BytesV)
			if b.obj == nil && ctx.nilAsNull {
				return e.nullNode(), Iface{}
			}
			n := e.newNode(2, b.n)
			n.content = e.bytesRope(b)
			return n, Iface{}
		}
		s := v.(SliceV)
		if s.obj == nil && ctx.nilAsNull {
			return e.nullNode(), Iface{}
		}
		n := e.newNode(4, e.c64(uint64(s.n)))
		for i := 0; i < s.n; i++ {
			kid, err := e.encodeElem(ctx, s.obj.elems[s.off+i], u.Elem())
			if err.typ != nil {
				return nil, err
			}
			n.kids = append(n.kids, kid)
		}
		return n, Iface{}
	case *types.Array:
		a := v.(*ArrayV)
		if b, ok := u.Elem().Underlying().(*types.Basic); ok && b.Kind() == types.Uint8 {
			var r Rope
			for _, el := range a.elems {
				r = append(r, SegSym{el.(*Term)})
			}
			n := e.newNode(2, e.c64(uint64(len(a.elems))))
			n.content = r
			return n, Iface{}
		}
		n := e.newNode(4, e.c64(uint64(len(a.elems))))
		for _, el := range a.elems {
			kid, err := e.encodeElem(ctx, el, u.Elem())
			if err.typ != nil {
				return nil, err
			}
			n.kids = append(n.kids, kid)
		}
		return n, Iface{}
	case *types.Map:
		m := v.(MapV)
		if m.obj == nil && ctx.nilAsNull {
			return e.nullNode(), Iface{}
		}
		it := e.makeRange(m).(*rangeIter)
		n := e.newNode(5, e.c64(uint64(len(it.entries))))
		for _, en := range it.entries {
			k, err := e.encodeElem(ctx, en.k, u.Key())
			if err.typ != nil {
				return nil, err
			}
			val, err := e.encodeElem(ctx, en.v, u.Elem())
			if err.typ != nil {
				return nil, err
			}
			n.kids = append(n.kids, k, val)
		}
		n.sortMode = ctx.sort
		n.sorted = len(it.entries) <= 1 || ctx.sort == 0
		return n, Iface{}
	case *types.Struct:
		toArray := false
		for i := 0; i < u.NumFields(); i++ {
			if u.Field(i).Name() == "_" && strings.Contains(u.Tag(i), "toarray") {
				toArray = true
			}
		}
		if !toArray {
			e.unsupported("encoding of struct without toarray: " + t.String())
		}
		sv := v.(*StructV)
		n := e.newNode(4, nil)
		for i := 0; i < u.NumFields(); i++ {
			if u.Field(i).Name() == "_" || !u.Field(i).Exported() {
				continue
			}
			kid, err := e.encodeElem(ctx, sv.fields[i], u.Field(i).Type())
			if err.typ != nil {
				return nil, err
			}
			n.kids = append(n.kids, kid)
		}
		n.arg = e.c64(uint64(len(n.kids)))
		return n, Iface{}
	case *types.Interface:
		ifc := v.(Iface)
		return e.encodeValue(ctx, ifc.val, ifc.typ)
	case *types.Chan, *types.Signature:
		return nil, e.mkErr("cbor: unsupported type: " + t.String())
	}
	e.unsupported("encodeValue of " + t.String())
	return nil, Iface{}
}

func isSpecialCborType(t types.Type) bool {
	return namedIs(t, cborPath, "RawMessage") || namedIs(t, cborPath, "Tag") || namedIs(t, cborPath, "ByteString") || namedIs(t, cborPath, "SimpleValue")
}

func (e *Engine) encodeElem(ctx encCtx, v Value, static types.Type) (*Node, Iface) {
	if _, ok := static.Underlying().(*types.Interface); ok {
		ifc := v.(Iface)
		return e.encodeValue(ctx, ifc.val, ifc.typ)
	}
	return e.encodeValue(ctx, v, static)
}

func (e *Engine) callMarshaler(fn *ssa.Function, recv Value) (*Node, Iface) {
	res := e.callStatic(fn, []Value{recv}).(TupleV)
	if err := res[1].(Iface); err.typ != nil {
		return nil, err
	}
	return e.rawNode(e.bytesRope(res[0].(BytesV))), Iface{}
}

// ---- canonical ordering of encoder-produced maps (lazy) -------------------------------------------------

func (e *Engine) resolveOrder(n *Node) {
	if n.sorted || n.major != 5 {
		return
	}
	n.sorted = true
	cnt := len(n.kids) / 2
	// insertion sort with symbolic comparisons (forks)
	for i := 1; i < cnt; i++ {
		for j := i; j > 0; j-- {
			a, b := n.kids[2*(j-1)], n.kids[2*j]
			less, eq := e.keyOrder(a, b, n.sortMode)
			if e.branch(less) {
				break
			}
			if e.branch(eq) {
				// equal encoded keys: sort.Sort is unstable, the order is unspecified
				if !e.mapOrderNondet || e.choose(2) == 0 {
					break
				}
			}
			n.kids[2*(j-1)], n.kids[2*(j-1)+1], n.kids[2*j], n.kids[2*j+1] = n.kids[2*j], n.kids[2*j+1], n.kids[2*(j-1)], n.kids[2*(j-1)+1]
		}
	}
}

// keyOrder returns (a strictly before b, encodings equal) for the given sort mode.
func (e *Engine) keyOrder(a, b *Node, mode int) (*Term, *Term) {
	tt := e.tt
	a, b = e.derefRaw(a), e.derefRaw(b)
	if a.major < 0 || b.major < 0 || a.wvar != nil || b.wvar != nil {
		e.unsupported("map key order on raw / non-minimal key")
	}
	bytewise := func() (*Term, *Term) {
		if a.major != b.major {
			return tt.Bool(a.major < b.major), tt.Bool(false)
		}
		switch a.major {
		case 0, 1, 7:
			return tt.Cmp("bvult", a.arg, b.arg), tt.Eq(a.arg, b.arg)
		case 2, 3:
			lenLess := tt.Cmp("bvult", a.arg, b.arg)
			lenEq := tt.Eq(a.arg, b.arg)
			cl, ce := e.ropeLex(a.content, b.content, lenEq)
			return tt.Or(lenLess, tt.And(lenEq, cl)), tt.And(lenEq, ce)
		}
		e.unsupported(fmt.Sprintf("map key order for major type %d", a.major))
		return nil, nil
	}
	less, eq := bytewise()
	if mode == 1 { // length first
		la, lb := e.itemLen(a), e.itemLen(b)
		return tt.Or(tt.Cmp("bvult", la, lb), tt.And(tt.Eq(la, lb), less)), eq
	}
	return less, eq
}

func (e *Engine) derefRaw(n *Node) *Node {
	if n.neg != nil {
		return e.fixMajor(n)
	}
	for n.major < 0 {
		sub, rest, err := e.parseOne(n.raw)
		if err != "" || len(rest) != 0 {
			return n
		}
		n = sub
	}
	return n
}

// ropeLex compares two byte strings of equal length (assumed under lenEq) lexicographically.
func (e *Engine) ropeLex(a, b Rope, lenEq *Term) (*Term, *Term) {
	tt := e.tt
	ab, okA := e.ropeByteTerms(a)
	bb, okB := e.ropeByteTerms(b)
	if okA && okB {
		if len(ab) != len(bb) {
			return tt.Bool(false), tt.Bool(false)
		}
		less, eq := tt.Bool(false), tt.Bool(true)
		for i := len(ab) - 1; i >= 0; i-- {
			less = tt.Or(tt.Cmp("bvult", ab[i], bb[i]), tt.And(tt.Eq(ab[i], bb[i]), less))
		}
		for i := range ab {
			eq = tt.And(eq, tt.Eq(ab[i], bb[i]))
		}
		return less, eq
	}
	// opaque contents
	ka, kb := e.ropeKey(a), e.ropeKey(b)
	if ka == kb {
		return tt.Bool(false), tt.Bool(true)
	}
	l := tt.UF("lexless", 0, e.intern("rope", ka), e.intern("rope", kb))
	q := tt.UF("lexeq", 0, e.intern("rope", ka), e.intern("rope", kb))
	return tt.And(l, tt.Not(q)), q
}

func (e *Engine) ropeByteTerms(r Rope) ([]*Term, bool) {
	var out []*Term
	for _, s := range r {
		switch x := s.(type) {
		case SegLit:
			for _, b := range x.b {
				out = append(out, e.tt.BVu(uint64(b), 8))
			}
		case SegSym:
			out = append(out, x.t)
		default:
			return nil, false
		}
	}
	return out, true
}

// ---- decoding ---------------------------------------------------------------------------------------------

type decCtx struct {
	tagsForbidden bool
	indefForbidden bool
	dupEnforced   bool
	intDecSigned  bool
	maxNested     int
	opts          *StructV
	input         *BytesObj
}

func (e *Engine) decCtxOf(opts *StructV, data BytesV) decCtx {
	root := data.obj
	for root != nil && root.aliasOf != nil {
		root = root.aliasOf
	}
	e.checkOptionsModelled(opts, "DecOptions")
	maxNested := int(e.optField(opts, "DecOptions", "MaxNestedLevels"))
	if maxNested == 0 {
		maxNested = 32
	}
	return decCtx{
		maxNested:      maxNested,
		tagsForbidden:  e.optField(opts, "DecOptions", "TagsMd") == e.cborConst("TagsForbidden"),
		indefForbidden: e.optField(opts, "DecOptions", "IndefLength") == e.cborConst("IndefLengthForbidden"),
		dupEnforced:    e.optField(opts, "DecOptions", "DupMapKey") == e.cborConst("DupMapKeyEnforcedAPF"),
		intDecSigned:   e.optField(opts, "DecOptions", "IntDec") == e.cborConst("IntDecConvertSigned"),
		opts:           opts,
		input:          root,
	}
}

// parseOne recognises one data item at the start of a rope.
// err != "" is a syntax error of the byte-level scan.
func (e *Engine) parseOne(r Rope) (n *Node, rest Rope, err string) {
	for len(r) > 0 {
		if l := e.segLen(r[0]); l.isConst() && l.u64() == 0 {
			r = r[1:]
			continue
		}
		break
	}
	if len(r) == 0 {
		return nil, nil, "EOF"
	}
	switch x := r[0].(type) {
	case SegItem:
		if x.node.major < 0 {
			sub, subrest, serr := e.parseOne(x.node.raw)
			if serr != "" {
				return nil, nil, serr
			}
			return sub, ropeConcat(subrest, r[1:]), ""
		}
		return x.node, r[1:], ""
	case SegHead:
		body := e.bodyRope(x.node)
		if len(r)-1 < len(body) {
			e.unsupported("decode of partially overwritten item")
		}
		for i, s := range body {
			if !sameSeg(s, r[1+i]) {
				e.unsupported("decode of restructured item")
			}
		}
		return x.node, r[1+len(body):], ""
	case SegBlob:
		if strings.HasPrefix(x.arr.name, "blob:garbage") {
			return nil, nil, "syntax error (unstructured input)"
		}
		e.unsupported("decode of opaque blob " + x.arr.name)
	}
	// literal bytes
	var buf []byte
	k := 0
	for k < len(r) {
		if l, ok := r[k].(SegLit); ok {
			buf = append(buf, l.b...)
			k++
			continue
		}
		if s, ok := r[k].(SegSym); ok && s.t.isConst() {
			buf = append(buf, byte(s.t.u64()))
			k++
			continue
		}
		break
	}
	if len(buf) == 0 {
		if _, ok := r[0].(SegSym); ok {
			return e.parseRaw(r, 0)
		}
		e.unsupported(fmt.Sprintf("decode of rope starting with %T", r[0]))
	}
	node, used, perr := e.parseConcrete(buf, 0)
	if perr != "" {
		if k < len(r) {
			if bl, ok := r[k].(SegBlob); ok && strings.HasPrefix(bl.arr.name, "blob:garbage") {
				return nil, nil, "syntax error (literal prefix followed by unstructured input)"
			}
			return e.parseRaw(r, 0)
		}
		return nil, nil, perr
	}
	restR := ropeLit(buf[used:])
	return node, ropeConcat(restR, r[k:]), ""
}

// parseRaw: byte-level scan of a rope whose head bytes are literal or symbolic byte terms
// (buffers the code under test wrote into). Forks on the major type and the head form.
func (e *Engine) parseRaw(r Rope, depth int) (*Node, Rope, string) {
	tt := e.tt
	if depth > 8 {
		e.unsupported("raw decode nested too deep")
	}
	total := e.ropeLen(r)
	if !e.branch(tt.Cmp("bvugt", total, e.c64(0))) {
		return nil, nil, "unexpected EOF"
	}
	b0 := e.ropeIndex(r, e.c64(0))
	mj, ok := e.concretizeAmong(tt.Extract(b0, 7, 5), []uint64{0, 1, 2, 3, 4, 5, 6, 7})
	if !ok {
		e.unsupported("raw decode: major type not concretizable")
	}
	major := int(mj)
	ai := tt.Extract(b0, 4, 0)
	var arg *Term
	w := 0
	if e.branch(tt.Cmp("bvult", ai, tt.BVu(24, 5))) {
		arg = tt.ZExt(ai, 64)
	} else {
		aiv, ok := e.concretizeAmong(ai, []uint64{24, 25, 26, 27, 28, 29, 30, 31})
		if !ok {
			e.unsupported("raw decode: additional information not concretizable")
		}
		switch {
		case aiv <= 27:
			w = 1 << (aiv - 24)
			if !e.branch(tt.Cmp("bvuge", total, e.c64(uint64(1+w)))) {
				return nil, nil, "unexpected EOF"
			}
			var parts *Term
			for i := 1; i <= w; i++ {
				b := e.ropeIndex(r, e.c64(uint64(i)))
				if parts == nil {
					parts = b
				} else {
					parts = tt.Concat(parts, b)
				}
			}
			arg = tt.ZExt(parts, 64)
		case aiv == 31:
			e.unsupported("raw decode of an indefinite-length head")
		default:
			return nil, nil, "reserved additional information"
		}
	}
	n := e.newNode(major, arg)
	n.wvar = tt.BVu(uint64(w), 8)
	pos := e.c64(uint64(1 + w))
	switch major {
	case 0, 1:
		return n, e.ropeSlice(r, pos, total), ""
	case 7:
		if w == 1 && e.branch(tt.Cmp("bvult", arg, e.c64(32))) {
			return nil, nil, "invalid simple value"
		}
		return n, e.ropeSlice(r, pos, total), ""
	case 2, 3:
		if !e.branch(tt.Cmp("bvule", arg, tt.Bin("bvsub", total, pos))) {
			return nil, nil, "unexpected EOF"
		}
		end := tt.Bin("bvadd", pos, arg)
		n.content = e.ropeSlice(r, pos, end)
		return n, e.ropeSlice(r, end, total), ""
	}
	// containers: the count must be small and concrete
	count := uint64(1)
	if major != 6 {
		cnt, ok := e.concretize(arg, 6)
		if !ok {
			e.unsupported("raw decode: container count not concretizable")
		}
		n.arg = e.c64(cnt)
		count = cnt
		if major == 5 {
			count = 2 * cnt
		}
	}
	rest := e.ropeSlice(r, pos, total)
	for i := uint64(0); i < count; i++ {
		k, kr, err := e.parseOne(rest)
		if err != "" {
			if err == "EOF" {
				err = "unexpected EOF"
			}
			return nil, nil, err
		}
		n.kids = append(n.kids, k)
		rest = kr
	}
	return n, rest, ""
}

func sameSeg(a, b Seg) bool {
	switch x := a.(type) {
	case SegItem:
		y, ok := b.(SegItem)
		return ok && x.node == y.node
	case SegHead:
		y, ok := b.(SegHead)
		return ok && x.node == y.node
	case SegBlob:
		y, ok := b.(SegBlob)
		return ok && x == y
	case SegSym:
		y, ok := b.(SegSym)
		return ok && x == y
	case SegLit:
		y, ok := b.(SegLit)
		return ok && string(x.b) == string(y.b)
	case SegZero:
		y, ok := b.(SegZero)
		return ok && x == y
	case SegIntBE:
		y, ok := b.(SegIntBE)
		return ok && x == y
	}
	return false
}

// parseConcrete parses one item from bytes.
func (e *Engine) parseConcrete(b []byte, depth int) (*Node, int, string) {
	if len(b) == 0 {
		return nil, 0, "unexpected EOF"
	}
	if depth > 40 {
		return nil, 0, "exceeded max nested level"
	}
	major := int(b[0] >> 5)
	ai := b[0] & 0x1f
	var arg uint64
	w := 0
	pos := 1
	indef := false
	switch {
	case ai < 24:
		arg = uint64(ai)
	case ai == 24, ai == 25, ai == 26, ai == 27:
		w = 1 << (ai - 24)
		if len(b) < 1+w {
			return nil, 0, "unexpected EOF"
		}
		for i := 0; i < w; i++ {
			arg = arg<<8 | uint64(b[1+i])
		}
		pos = 1 + w
	case ai == 31:
		if major == 0 || major == 1 || major == 6 || major == 7 {
			return nil, 0, "invalid additional information 31"
		}
		indef = true
	default:
		return nil, 0, "reserved additional information"
	}
	n := e.newNode(major, e.c64(arg))
	n.wvar = e.tt.BVu(uint64(w), 8)
	n.indef = indef
	switch major {
	case 0, 1:
	case 7:
		if ai == 24 && arg < 32 {
			return nil, 0, "invalid simple value"
		}
	case 2, 3:
		if indef {
			// chunks
			var content []byte
			for {
				if pos >= len(b) {
					return nil, 0, "unexpected EOF"
				}
				if b[pos] == 0xff {
					pos++
					break
				}
				if int(b[pos]>>5) != major || b[pos]&0x1f == 31 {
					return nil, 0, "wrong chunk type in indefinite-length string"
				}
				c, used, err := e.parseConcrete(b[pos:], depth+1)
				if err != "" {
					return nil, 0, err
				}
				cb, _ := ropeConcrete(c.content)
				content = append(content, cb...)
				pos += used
			}
			n.content = ropeLit(content)
			n.arg = e.c64(uint64(len(content)))
			return n, pos, ""
		}
		if arg > uint64(len(b)-pos) {
			return nil, 0, "unexpected EOF"
		}
		n.content = ropeLit(b[pos : pos+int(arg)])
		pos += int(arg)
	case 4, 5, 6:
		count := arg
		if major == 5 {
			count = 2 * arg
		}
		if major == 6 {
			count = 1
		}
		if indef {
			for {
				if pos >= len(b) {
					return nil, 0, "unexpected EOF"
				}
				if b[pos] == 0xff {
					pos++
					break
				}
				k, used, err := e.parseConcrete(b[pos:], depth+1)
				if err != "" {
					return nil, 0, err
				}
				n.kids = append(n.kids, k)
				pos += used
			}
			if major == 5 && len(n.kids)%2 != 0 {
				return nil, 0, "odd number of items in indefinite-length map"
			}
			n.arg = e.c64(uint64(len(n.kids)))
			if major == 5 {
				n.arg = e.c64(uint64(len(n.kids) / 2))
			}
			return n, pos, ""
		}
		if count > uint64(len(b)) {
			return nil, 0, "unexpected EOF"
		}
		for i := uint64(0); i < count; i++ {
			k, used, err := e.parseConcrete(b[pos:], depth+1)
			if err != "" {
				return nil, 0, err
			}
			n.kids = append(n.kids, k)
			pos += used
		}
	}
	return n, pos, ""
}

// wellformed applies the mode rules to a tree (bstr contents are opaque).
func (e *Engine) wellformed(ctx decCtx, n *Node, depth int) string {
	n = e.derefRaw(n)
	if n.major < 0 {
		e.unsupported("wellformedness of unparsable raw item")
	}
	if n.indef && ctx.indefForbidden {
		return "indefinite-length items are forbidden"
	}
	if (n.major == 4 || n.major == 5 || n.major == 6) && depth > ctx.maxNested {
		// the library counts arrays, maps and tags (valid.go: depth++ on entering one)
		return fmt.Sprintf("exceeded max nested level %d", ctx.maxNested)
	}
	switch n.major {
	case 6:
		if ctx.tagsForbidden {
			return "CBOR tag isn't allowed"
		}
	case 7:
		// 2-byte simple values below 32 are not well-formed
		w := e.nodeWidth(n)
		if e.branch(e.tt.And(e.tt.Eq(w, e.tt.BVu(1, 8)), e.tt.Cmp("bvult", n.arg, e.c64(32)))) {
			return "invalid simple value"
		}
	}
	for _, k := range n.kids {
		if s := e.wellformed(ctx, k, depth+1); s != "" {
			return s
		}
	}
	return ""
}

func (e *Engine) cborWellformed(opts *StructV, data BytesV) Value {
	ctx := e.decCtxOf(opts, data)
	r := e.bytesRope(data)
	if e.branch(e.tt.Eq(e.ropeLen(r), e.c64(0))) {
		return e.load(PtrV{cell: e.foreignGlobal("io.EOF")})
	}
	n, rest, perr := e.parseOne(r)
	if perr != "" {
		return e.mkErr("cbor: " + perr)
	}
	if s := e.wellformed(ctx, n, 1); s != "" {
		return e.mkErr("cbor: " + s)
	}
	if !e.branch(e.tt.Eq(e.ropeLen(rest), e.c64(0))) {
		return e.mkErr("cbor: extraneous data")
	}
	return Iface{}
}

func (e *Engine) foreignGlobal(name string) *Cell {
	if g, ok := e.Program.globalCache.Load(name); ok {
		return e.globalCell(g.(*ssa.Global))
	}
	for _, p := range e.prog.AllPackages() {
		for _, m := range p.Members {
			if g, ok := m.(*ssa.Global); ok && g.String() == name {
				e.Program.globalCache.Store(name, g)
				return e.globalCell(g)
			}
		}
	}
	e.unsupported("global not found: " + name)
	return nil
}

func (e *Engine) cborUnmarshal(opts *StructV, data BytesV, target Iface) Value {
	ctx := e.decCtxOf(opts, data)
	r := e.bytesRope(data)
	if e.branch(e.tt.Eq(e.ropeLen(r), e.c64(0))) {
		return e.load(PtrV{cell: e.foreignGlobal("io.EOF")})
	}
	n, rest, perr := e.parseOne(r)
	if perr != "" {
		return e.mkErr("cbor: " + perr)
	}
	if s := e.wellformed(ctx, n, 1); s != "" {
		return e.mkErr("cbor: " + s)
	}
	if !e.branch(e.tt.Eq(e.ropeLen(rest), e.c64(0))) {
		return e.mkErr("cbor: extraneous data")
	}
	if target.typ == nil {
		return e.mkErr("cbor: Unmarshal(nil)")
	}
	pt, ok := target.typ.Underlying().(*types.Pointer)
	if !ok {
		return e.mkErr("cbor: Unmarshal(non-pointer)")
	}
	dst := target.val.(PtrV)
	if dst.isNil() {
		return e.mkErr("cbor: Unmarshal(nil pointer)")
	}
	return e.decodeTo(ctx, n, dst, pt.Elem())
}

func (e *Engine) isNullNode(n *Node) bool {
	if n.major != 7 {
		return false
	}
	w := e.nodeWidth(n)
	return e.branch(e.tt.And(e.tt.Eq(w, e.tt.BVu(0, 8)), e.tt.Or(e.tt.Eq(n.arg, e.c64(22)), e.tt.Eq(n.arg, e.c64(23)))))
}

func emptyIface() types.Type { return types.NewInterfaceType(nil, nil) }

func (e *Engine) typeErr(n *Node, t types.Type) Iface {
	return e.mkErr(fmt.Sprintf("cbor: cannot unmarshal major type %d into Go value of type %s", n.major, t))
}

// itemView makes the []byte handed to an UnmarshalCBOR callback: a view of the input buffer.
func (e *Engine) itemView(ctx decCtx, n *Node) BytesV {
	b := e.bytesFromRope(Rope{SegItem{n}})
	b.obj.aliasOf = ctx.input
	if ctx.input != nil {
		b.obj.epoch = ctx.input.epoch
		b.obj.tag = "view:" + ctx.input.tag
	}
	return b
}

func (e *Engine) decodeTo(ctx decCtx, n *Node, dst PtrV, t types.Type) Iface {
	tt := e.tt
	n = e.derefRaw(n)
	isNull := e.isNullNode(n)
	// pointers: allocate unless null
	if pt, ok := t.Underlying().(*types.Pointer); ok {
		cur := e.load(dst).(PtrV)
		if isNull {
			// Unmarshaler on nil pointer with null: skip; otherwise fillNil
			e.store(dst, PtrV{})
			return Iface{}
		}
		if cur.isNil() {
			cur = PtrV{cell: e.newCell(e.zero(pt.Elem()), "decoded *"+pt.Elem().String())}
			e.store(dst, cur)
		}
		return e.decodeTo(ctx, n, cur, pt.Elem())
	}
	// empty interface target
	if it, ok := t.Underlying().(*types.Interface); ok {
		if it.NumMethods() != 0 {
			e.unsupported("decode into non-empty interface")
		}
		if cur := e.load(dst).(Iface); cur.typ != nil {
			e.unsupported("decode into non-nil interface value")
		}
		v, err := e.parseAny(ctx, n)
		if v.typ != nil {
			e.store(dst, v)
		}
		return err
	}
	// special cbor types
	switch {
	case namedIs(t, cborPath, "RawMessage"):
		// RawMessage.UnmarshalCBOR: *m = append((*m)[0:0], data...), i.e. existing storage is reused
		nb := e.bytesFromRope(Rope{SegItem{n}})
		if cur, ok := e.load(dst).(BytesV); ok && cur.obj != nil {
			e.store(dst, e.appendOp(BytesV{obj: cur.obj, off: cur.off, n: e.c64(0), cap: cur.cap}, nb))
			return Iface{}
		}
		e.store(dst, nb)
		return Iface{}
	case namedIs(t, cborPath, "Tag"), namedIs(t, "time", "Time"), isBigInt(t):
		e.unsupported("decode into " + t.String())
	}
	// Unmarshaler
	if fn, _ := e.findMethod(types.NewPointer(t), "UnmarshalCBOR"); fn != nil {
		res := e.callStatic(fn, []Value{dst, e.itemView(ctx, n)})
		return res.(Iface)
	}
	if n.major == 6 {
		// tags are transparent for typed targets (except built-ins, outside the model)
		if e.branch(tt.Cmp("bvult", n.arg, e.c64(4))) {
			e.unsupported("built-in tag 0..3 into typed target")
		}
		if e.branch(tt.Eq(n.arg, e.c64(55799))) {
			e.unsupported("self-described tag")
		}
		return e.decodeTo(ctx, n.kids[0], dst, t)
	}
	if isNull {
		switch t.Underlying().(type) {
		case *types.Slice, *types.Map:
			e.store(dst, e.zero(t))
		}
		return Iface{}
	}
	switch u := t.Underlying().(type) {
	case *types.Basic:
		switch {
		case u.Info()&types.IsInteger != 0:
			w, signed, _ := intWidth(u)
			switch n.major {
			case 0, 7:
				if n.major == 7 {
					// simple values < 20 or 32..255 fill as positive ints; bools/floats are type errors
					wd := e.nodeWidth(n)
					if !e.branch(tt.Or(tt.Eq(wd, tt.BVu(0, 8)), tt.Eq(wd, tt.BVu(1, 8)))) {
						return e.typeErr(n, t)
					}
					if e.branch(tt.Or(tt.Eq(n.arg, e.c64(20)), tt.Eq(n.arg, e.c64(21)))) {
						return e.typeErr(n, t)
					}
				}
				limit := e.c64(1<<uint(w) - 1)
				if w == 64 {
					limit = e.c64(^uint64(0))
				}
				if signed {
					limit = e.c64(1<<uint(w-1) - 1)
				}
				if e.branch(tt.Cmp("bvugt", n.arg, limit)) {
					return e.mkErr("cbor: cannot unmarshal positive integer: overflows " + t.String())
				}
				e.store(dst, tt.Extract(n.arg, w-1, 0))
				return Iface{}
			case 1:
				if !signed {
					return e.typeErr(n, t)
				}
				if e.branch(tt.Cmp("bvugt", n.arg, e.c64(1<<uint(w-1)-1))) {
					return e.mkErr("cbor: cannot unmarshal negative integer: overflows " + t.String())
				}
				e.store(dst, tt.Extract(tt.BVNot(n.arg), w-1, 0))
				return Iface{}
			}
			return e.typeErr(n, t)
		case u.Info()&types.IsString != 0:
			if n.major != 3 {
				return e.typeErr(n, t)
			}
			if err := e.utf8Check(n.content); err.typ != nil {
				return err
			}
			e.store(dst, StrV{n.content})
			return Iface{}
		case u.Info()&types.IsBoolean != 0:
			if n.major == 7 {
				wd := e.nodeWidth(n)
				if e.branch(tt.And(tt.Eq(wd, tt.BVu(0, 8)), tt.Or(tt.Eq(n.arg, e.c64(20)), tt.Eq(n.arg, e.c64(21))))) {
					e.store(dst, tt.Eq(n.arg, e.c64(21)))
					return Iface{}
				}
			}
			return e.typeErr(n, t)
		}
	case *types.Slice:
		if isByteSlice(t) {
			switch n.major {
			case 2:
				e.store(dst, e.bytesFromRope(n.content)) // copy
				if lz := e.ropeLen(n.content); lz.isConst() && lz.u64() == 0 {
					// empty, non-nil
					o := e.newBytesObj(nil, e.c64(0))
					e.store(dst, BytesV{obj: o, off: e.c64(0), n: e.c64(0), cap: e.c64(0)})
				}
				return Iface{}
			case 4:
				// array of small integers into []byte
				return e.decodeArrayToSlice(ctx, n, dst, t, u)
			}
			return e.typeErr(n, t)
		}
		if n.major != 4 {
			return e.typeErr(n, t)
		}
		return e.decodeArrayToSlice(ctx, n, dst, t, u)
	case *types.Struct:
		if n.major != 4 {
			return e.typeErr(n, t)
		}
		toArray := false
		var fieldIdx []int
		for i := 0; i < u.NumFields(); i++ {
			if u.Field(i).Name() == "_" {
				if strings.Contains(u.Tag(i), "toarray") {
					toArray = true
				}
				continue
			}
			if u.Field(i).Exported() {
				fieldIdx = append(fieldIdx, i)
			}
		}
		if !toArray {
			return e.mkErr("cbor: cannot decode CBOR array to struct without toarray option")
		}
		if len(n.kids) != len(fieldIdx) {
			return e.mkErr("cbor: cannot decode CBOR array to struct with different number of elements")
		}
		var first Iface
		for i, fi := range fieldIdx {
			fp := dst
			fp.path = append(append([]int{}, dst.path...), fi)
			if err := e.decodeTo(ctx, n.kids[i], fp, u.Field(fi).Type()); err.typ != nil && first.typ == nil {
				first = err
			}
		}
		return first
	case *types.Map:
		if n.major != 5 {
			return e.typeErr(n, t)
		}
		return e.decodeMapToMap(ctx, n, dst, u)
	}
	e.unsupported("decodeTo into " + t.String())
	return Iface{}
}

func (e *Engine) decodeArrayToSlice(ctx decCtx, n *Node, dst PtrV, t types.Type, u *types.Slice) Iface {
	count := len(n.kids)
	if isByteSlice(t) {
		// each element must fit uint8
		var r Rope
		var first Iface
		for _, k := range n.kids {
			c := e.newCell(e.tt.BVu(0, 8), "elem")
			if err := e.decodeTo(ctx, k, PtrV{cell: c}, u.Elem()); err.typ != nil && first.typ == nil {
				first = err
			}
			r = append(r, SegSym{c.val.(*Term)})
		}
		e.store(dst, e.bytesFromRope(r))
		return first
	}
	cur := e.load(dst).(SliceV)
	var arr *ArrObj
	if cur.obj == nil || cur.cap < count || count == 0 {
		elems := make([]Value, count)
		for i := range elems {
			elems[i] = e.zero(u.Elem())
		}
		arr = e.newArrObj(elems)
		cur = SliceV{obj: arr, off: 0, n: count, cap: count}
	} else {
		cur = SliceV{obj: cur.obj, off: cur.off, n: count, cap: cur.cap}
	}
	e.store(dst, cur)
	var first Iface
	for i, k := range n.kids {
		if err := e.decodeTo(ctx, k, PtrV{arr: cur.obj, idx: cur.off + i}, u.Elem()); err.typ != nil && first.typ == nil {
			first = err
		}
	}
	return first
}

func (e *Engine) decodeMapToMap(ctx decCtx, n *Node, dst PtrV, u *types.Map) Iface {
	m := e.load(dst).(MapV)
	if m.obj == nil {
		m = MapV{obj: e.newMapObj()}
		e.store(dst, m)
	}
	// a non-empty destination map is kept (the library decodes into it): entries present before may be
	// overwritten once each without counting as duplicates (existingKeys in parseMapToMap)
	overwritable := map[int]bool{}
	for i := range m.obj.entries {
		overwritable[i] = true
	}
	_, keyIsIface := u.Key().Underlying().(*types.Interface)
	var first Iface
	for i := 0; i+1 < len(n.kids); i += 2 {
		kc := e.newCell(e.zero(u.Key()), "mapkey")
		if err := e.decodeTo(ctx, n.kids[i], PtrV{cell: kc}, u.Key()); err.typ != nil {
			if first.typ == nil {
				first = err
			}
			continue
		}
		key := kc.val
		if keyIsIface {
			kif := key.(Iface)
			if kif.typ != nil {
				conv, ok := e.hashableKey(kif)
				if !ok {
					if first.typ == nil {
						first = e.mkErr("cbor: invalid map key type: " + kif.typ.String())
					}
					continue
				}
				key = conv
			}
		}
		vc := e.newCell(e.zero(u.Elem()), "mapval")
		if err := e.decodeTo(ctx, n.kids[i+1], PtrV{cell: vc}, u.Elem()); err.typ != nil {
			if first.typ == nil {
				first = err
			}
			continue
		}
		before := len(m.obj.entries)
		at := e.mapFind(m.obj, key)
		e.mapUpdate(m, key, vc.val)
		if ctx.dupEnforced && len(m.obj.entries) == before {
			if at >= 0 && overwritable[at] {
				delete(overwritable, at)
				continue
			}
			return e.mkErr("cbor: found duplicate map key")
		}
	}
	return first
}

// hashableKey mirrors isHashableValue / convertByteSliceToByteString.
func (e *Engine) hashableKey(k Iface) (Iface, bool) {
	if isByteSlice(k.typ) {
		bs := e.lookupType(cborPath, "ByteString")
		return Iface{typ: bs, val: StrV{e.bytesRope(k.val.(BytesV))}}, true
	}
	switch k.typ.Underlying().(type) {
	case *types.Slice, *types.Map, *types.Signature:
		return k, false
	}
	if isBigInt(k.typ) {
		return k, false
	}
	if namedIs(k.typ, cborPath, "Tag") {
		content := k.val.(*StructV).fields[1].(Iface)
		if content.typ == nil {
			return k, true
		}
		c, ok := e.hashableKey(content)
		if !ok {
			return k, false
		}
		return Iface{typ: k.typ, val: &StructV{fields: []Value{k.val.(*StructV).fields[0], c}}}, true
	}
	return k, true
}

func (e *Engine) utf8Check(r Rope) Iface {
	if !e.branch(e.utf8ValidOf(r)) {
		return e.mkErr("cbor: invalid UTF-8 string")
	}
	return Iface{}
}

// parseAny decodes into the default Go types (decoder.parse).
func (e *Engine) parseAny(ctx decCtx, n *Node) (Iface, Iface) {
	tt := e.tt
	n = e.derefRaw(n)
	i64 := types.Typ[types.Int64]
	switch n.major {
	case 0:
		if !ctx.intDecSigned {
			return Iface{typ: types.Typ[types.Uint64], val: n.arg}, Iface{}
		}
		if e.branch(tt.Cmp("bvugt", n.arg, e.c64(1<<63-1))) {
			return Iface{}, e.mkErr("cbor: cannot unmarshal positive integer into Go value of type int64: overflows Go's int64")
		}
		return Iface{typ: i64, val: n.arg}, Iface{}
	case 1:
		if e.branch(tt.Cmp("bvugt", n.arg, e.c64(1<<63-1))) {
			bt := e.lookupType("math/big", "Int")
			mag := tt.Bin("bvadd", tt.ZExt(n.arg, 72), tt.BVu(1, 72))
			return Iface{typ: bt, val: BigV{mag: mag, neg: tt.Bool(true)}}, Iface{}
		}
		return Iface{typ: i64, val: tt.BVNot(n.arg)}, Iface{}
	case 2:
		b := e.bytesFromRope(n.content)
		if b.obj.rope == nil {
			// zero-length but non-nil
		}
		return Iface{typ: types.NewSlice(types.Typ[types.Uint8]), val: b}, Iface{}
	case 3:
		if err := e.utf8Check(n.content); err.typ != nil {
			return Iface{}, err
		}
		return Iface{typ: types.Typ[types.String], val: StrV{n.content}}, Iface{}
	case 4:
		elems := make([]Value, len(n.kids))
		var first Iface
		for i, k := range n.kids {
			v, err := e.parseAny(ctx, k)
			if err.typ != nil {
				if first.typ == nil {
					first = err
				}
				elems[i] = Iface{}
				continue
			}
			elems[i] = v
		}
		sl := SliceV{obj: e.newArrObj(elems), off: 0, n: len(elems), cap: len(elems)}
		return Iface{typ: types.NewSlice(emptyIface()), val: sl}, first
	case 5:
		m := MapV{obj: e.newMapObj()}
		mt := types.NewMap(emptyIface(), emptyIface())
		var first Iface
		for i := 0; i+1 < len(n.kids); i += 2 {
			k, err := e.parseAny(ctx, n.kids[i])
			if err.typ != nil {
				if first.typ == nil {
					first = err
				}
				continue
			}
			if k.typ != nil {
				conv, ok := e.hashableKey(k)
				if !ok {
					if first.typ == nil {
						first = e.mkErr("cbor: invalid map key type: " + k.typ.String())
					}
					continue
				}
				k = conv
			}
			v, err := e.parseAny(ctx, n.kids[i+1])
			if err.typ != nil {
				if first.typ == nil {
					first = err
				}
				continue
			}
			before := len(m.obj.entries)
			e.mapUpdate(m, k, v)
			if ctx.dupEnforced && len(m.obj.entries) == before {
				return Iface{typ: mt, val: m}, e.mkErr("cbor: found duplicate map key")
			}
		}
		return Iface{typ: mt, val: m}, first
	case 6:
		if e.branch(tt.Cmp("bvult", n.arg, e.c64(4))) || e.branch(tt.Eq(n.arg, e.c64(55799))) {
			e.unsupported("built-in tag in untyped position (outside the modelled data model)")
		}
		c, err := e.parseAny(ctx, n.kids[0])
		if err.typ != nil {
			return Iface{}, err
		}
		tagT := e.lookupType(cborPath, "Tag")
		return Iface{typ: tagT, val: &StructV{fields: []Value{n.arg, c}}}, Iface{}
	case 7:
		w := e.nodeWidth(n)
		if wk, ok := e.concretizeAmong(w, []uint64{0, 1, 2, 4, 8}); ok && wk >= 2 {
			bits := n.arg
			if wk != 8 {
				bits = tt.UF("float_to_f64", 64, e.c64(wk), n.arg) // half / single precision widened to float64 (uninterpreted)
			}
			return Iface{typ: types.Typ[types.Float64], val: OpaqueV{kind: "float", data: bits}}, Iface{}
		}
		if e.branch(tt.Eq(n.arg, e.c64(20))) {
			return Iface{typ: types.Typ[types.Bool], val: tt.Bool(false)}, Iface{}
		}
		if e.branch(tt.Eq(n.arg, e.c64(21))) {
			return Iface{typ: types.Typ[types.Bool], val: tt.Bool(true)}, Iface{}
		}
		if e.branch(tt.Or(tt.Eq(n.arg, e.c64(22)), tt.Eq(n.arg, e.c64(23)))) {
			return Iface{}, Iface{}
		}
		return Iface{typ: e.lookupType(cborPath, "SimpleValue"), val: tt.Extract(n.arg, 7, 0)}, Iface{}
	}
	e.unsupported("parseAny")
	return Iface{}, Iface{}
}

// utf8Term: exact UTF-8 validity of a short string given as byte terms (RFC 3629 ranges).
func (e *Engine) utf8Term(bs []*Term) *Term {
	tt := e.tt
	in := func(b *Term, lo, hi uint64) *Term {
		return tt.And(tt.Cmp("bvule", tt.BVu(lo, 8), b), tt.Cmp("bvule", b, tt.BVu(hi, 8)))
	}
	cont := func(b *Term) *Term { return in(b, 0x80, 0xBF) }
	// valid[i]: the suffix starting at i is valid
	n := len(bs)
	valid := make([]*Term, n+1)
	valid[n] = tt.Bool(true)
	for i := n - 1; i >= 0; i-- {
		var alts []*Term
		alts = append(alts, tt.And(in(bs[i], 0x00, 0x7F), valid[i+1]))
		if i+1 < n {
			alts = append(alts, tt.And(in(bs[i], 0xC2, 0xDF), cont(bs[i+1]), valid[i+2]))
		}
		if i+2 < n {
			three := tt.Or(
				tt.And(in(bs[i], 0xE0, 0xE0), in(bs[i+1], 0xA0, 0xBF)),
				tt.And(in(bs[i], 0xE1, 0xEC), cont(bs[i+1])),
				tt.And(in(bs[i], 0xED, 0xED), in(bs[i+1], 0x80, 0x9F)),
				tt.And(in(bs[i], 0xEE, 0xEF), cont(bs[i+1])))
			alts = append(alts, tt.And(three, cont(bs[i+2]), valid[i+3]))
		}
		if i+3 < n {
			four := tt.Or(
				tt.And(in(bs[i], 0xF0, 0xF0), in(bs[i+1], 0x90, 0xBF)),
				tt.And(in(bs[i], 0xF1, 0xF3), cont(bs[i+1])),
				tt.And(in(bs[i], 0xF4, 0xF4), in(bs[i+1], 0x80, 0x8F)))
			alts = append(alts, tt.And(four, cont(bs[i+2]), cont(bs[i+3]), valid[i+4]))
		}
		valid[i] = tt.Or(alts...)
	}
	return valid[0]
}

// utf8ValidOf: validity of a rope as a term (exact for short byte-term ropes, uninterpreted for opaque contents)
func (e *Engine) utf8ValidOf(r Rope) *Term {
	if b, ok := ropeConcrete(r); ok {
		return e.tt.Bool(utf8.Valid(b))
	}
	if bs, ok := e.ropeByteTerms(r); ok && len(bs) <= 8 {
		return e.utf8Term(bs)
	}
	return e.tt.UF("utf8valid", 0, e.intern("rope", e.ropeKey(r)))
}
