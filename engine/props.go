package main

// Per-property stated bounds and assumptions (copied into evidence).

const commonQuick = "all integers, lengths and head arguments are symbolic 64-bit values unless stated; byte-string contents are opaque arrays; loops are unrolled exactly (container sizes are concrete per path); per-query solver timeout 30 s; per-harness wall-clock budget 240 s. "
const commonThorough = "as quick, with the wider shape bounds below; per-query solver timeout 300 s; per-harness budget 6 min, path cap 3,000,000. "

var propBounds = map[string]map[string]string{
	"C01": {"quick": commonQuick + "7 algorithms x {Sign1 tagged/untagged/detached, Sign with 1-2 signers, countersignatures over 4 parent kinds ptr/value constructed/decoded, Countersign0, hash envelope, keys from COSE_Key, native and opaque (wrapped crypto.Signer) keys, 1-4 countersignatures attached to a COSE_Sign1 or to a signer inside a COSE_Sign and sent over the wire}; one message dimension varied at a time; header maps <= 2 entries; payload/external length 0..2^31-1.",
		"thorough": commonThorough + "full product of the message dimensions."},
	"C02": {"quick": commonQuick + "COSE_Sign1 constructed (protected <= 2, unprotected <= 1 benign entries, first value a byte string of any length) and decoded (protected h''/h'a0'/map <= 2 entries, every head width symbolic); payload/external/signature lengths 0..2^31-1; tagged and untagged; zero / empty / populated header maps; a decoded COSE_Sign1 verified twice."},
	"C03": {"quick": commonQuick + "decoded Sign1 / Sign (1 signer) / countersignature (full + abbreviated) x 7 verifier algorithms x keys on 3 curves; alg matching / arbitrary other / absent; signature length 1..600; genuine signatures re-spelt (7 forms), transplanted (6 edits), offered as the other countersignature form, and under arbitrary edits of the unprotected bucket (incl. an alg parameter); tagged values inside protected headers; IV / Partial IV split between raw unprotected bytes and the parsed protected map, a parsed Unprotected map next to RawUnprotected; one dimension varied at a time.",
		"thorough": commonThorough + "full product."},
	"C04": {"quick": commonQuick + "Sign1 / Signature / Countersignature x constructed (alg label in 10 Go spellings, 14 value kinds + absent, protected map nil/non-nil) and decoded (alg as any integer / tstr / bstr / absent, optional extra entry); external nil/empty/non-empty; signer/verifier alg one symbolic int64; the one-call helpers Sign1 / Sign1Untagged / SignHashEnvelope (raw protected bytes naming any algorithm); a Headers value parsed twice."},
	"C05": {"quick": commonQuick + "conforming skeleton + 1 of 14 header features (incl. IV / Partial IV split over the two buckets, also in a nested countersignature) per layer + <= 1 fault position (every key/value/wrapper/arity/head/tag/trailing) replaced by an arbitrary item of depth <= 2; COSE_Sign with 1-2 signatures; countersignature nesting <= 2.",
		"thorough": commonThorough + "<= 2 simultaneous fault positions, richer arbitrary items."},
	"C06": {"quick": commonQuick + "as C05 (<= 1 fault) for the message decoders with 5 features; COSE_Key skeletons (EC2 x3, OKP, Symmetric) with one varied dimension or one faulted label/value; hash-envelope parameters 258/259/260 in every spelling with each value a fault position; key coordinates of any length 0..70 (OKP: curve and length varied together); unstructured buffers with 7 plausible prefixes; follow-up operations on every accepted value.",
		"thorough": commonThorough + "<= 2 faults, all 11 features, free-form key maps of 2 arbitrary pairs."},
	"C07": {"quick": commonQuick + "conforming Sign1 / Sign (1-2 signers) / countersignature (single, list) in arbitrary encodings, signed by the reference implementation with ES256/384/512, EdDSA, PS256; one dimension varied at a time.",
		"thorough": commonThorough + "full product."},
	"C08": {"quick": commonQuick + "header maps of 1-2 entries (5 label spellings, 2 value kinds), nested container values, messages of 5 types with countersignature values, 3 Sign helpers, keys of 3 kinds incl. one label under two Go keys; countersignature lists of 1 and 3; decoded values compared with the encoded ones; the second encoding runs under the next of 3 map-iteration schedules.",
		"thorough": commonThorough + "3 entries per map; every range statement picks its own permutation."},
	"C09": {"quick": commonQuick + "Sign1 (tagged/untagged/detached), Sign (1-2 signers, feature in body or either signer), Signature, Countersignature; 11 header features; all head widths symbolic; one decode/encode step from an arbitrary accepted message (covers any number of cycles), optionally with an unrelated message decoded in between; VerifyHashEnvelope as decoder."},
	"C10": {"quick": commonQuick + "4 parent kinds x ptr/value x full/abbreviated, constructed parents (<= 1 entry per bucket, payload/signature any length) and decoded Sign1 / Signature parents in arbitrary encodings; 9 refusal cases; parents whose unprotected bucket is arbitrary (also unencodable)."},
	"C11": {"quick": commonQuick + "n = 0..4 signatures, m in {n-1,n,n+1} verifiers/signers, every signature length 0..100, symbolic algorithm ids, symbolic failure flags, failing verifiers returning a private error or ErrVerification, a second Verify call with one rejecting verifier, slots holding no COSE_Signature at all (nil / null / undefined), a decoded pair of signers with equal header maps in different spellings.",
		"thorough": commonThorough + "n = 0..6."},
	"C12": {"quick": commonQuick + "base headers with governed / unrelated labels in 3 Go spellings and 3 value kinds, nil/empty maps, raw protected / raw unprotected buckets, hash algorithm symbolic int64, hash length 0..100, content type of 5 kinds, location; verify side: 1-2 governed labels in either bucket with 5 node kinds; one dimension varied at a time.",
		"thorough": commonThorough + "full product."},
	"C13": {"quick": commonQuick + "single entry: 12 Go label spellings x 16 Go value kinds (incl. a nil byte slice) + 3 other Go carriers (cbor.RawMessage, named byte slice, byte array), 4 wire label kinds x 13 wire value kinds, x 2 buckets; pairs: integer labels focused on {2,4,5,6,7,other}, 3 spellings, both iteration orders; IV/PIV across buckets in 7 structures.",
		"thorough": commonThorough + "pairs with all label spellings and unconstrained label values."},
	"C14": {"quick": commonQuick + "X, Y, D as 256/384/528-bit vectors on P-256/384/521 (all leading-zero patterns), Ed25519 keys; optional kid / ops / base IV / extra parameter; key_ops on either half; batch decode through one reused Key variable; genuine key pairs (d*G = (x, y) as an uninterpreted function)."},
	"C15": {"quick": commonQuick + "key skeletons EC2 x3 / OKP / Symmetric with one varied dimension (odd coordinate length among 8 values, arbitrary curve) or one faulted label/value; key_ops absent / empty / 1-3 entries (ints 0..10 or names); fresh or used destination (holding a decoded private key with key_ops); EC2 keys from genuine pairs in the gates harness."},
	"C16": {"quick": commonQuick + "(r,s) as 528/600-bit vectors (signed for the ASN.1 path) on 3 curves; verifier inputs of length 0..140; genuine signatures in 7 alternative forms through Verify and VerifyDigest; native keys through the public API (any ES algorithm x any curve); exact DER lengths for foreign crypto.Signers."},
	"C17": {"quick": commonQuick + "algorithm id one symbolic int64; RSA modulus size 2..8192 bits; ECDSA keys on P-224/256/384/521 with uninterpreted on-curve flag; Ed25519; foreign crypto.Signer with 3 public key kinds; a wrapping foreign signer that records the digest it is handed; signing may fail only when the primitive fails."},
	"C18": {"quick": commonQuick + "4 message kinds x constructed/decoded x 4 header features; built-in objects of 3 families signing two distinct messages (run as goroutines on one P natively); key skeletons with coordinates of any length; sync.Pool model (use after Put)."},
	"C19": {"quick": commonQuick + "destination holding a previously decoded message; input as C05 (<= 1 fault, 5 features); 7 decoders; 6 header features incl. the IV split.",
		"thorough": commonThorough + "used / fresh destination, 3 previous shapes, <= 2 faults."},
	"C20": {"quick": commonQuick + "each signer outcome in {ok, ok-but-empty, error with garbage bytes}; each verifier outcome in {ok, error}; 7 harnesses over Sign1, Sign1Untagged, Sign1Message.Sign, Countersignature.Sign, Countersign0, SignHashEnvelope, 6 Verify forms, built-in signers over a failing crypto.Signer, 5 encoders on empty signatures, built-in signers over a key that reports success with an empty result; COSE_Sign with two signers and the failing verifier at either position; failing verifiers returning ErrVerification. Multi-signer fault vectors: C11."},
}

var propAssumptions = map[string][]string{}

var commonAssumptions = []string{
	"A-cbor: fxamacker/cbor v2.5.0 behaves as the option-parameterised tree model (DESIGN.md 4.1); options and constants are read from /repo's init and the library's SSA on every run; witness models are replayed against the real library in every run",
	"A-crypto: hash / sign / verify primitives are uninterpreted; what the signing primitive produced is accepted by the verifying primitive for the same key, hash and bytes; they panic only on their documented preconditions",
	"A-big: math/big Sign/BitLen/Cmp/Bytes/SetBytes/FillBytes have their documented semantics (bit-vector definitions)",
	"A-data: Go strings handed to the API are valid UTF-8; integers in values fit int64; header values of kinds tag 0-3 / bignum / time are outside the data model",
	"A-fmt: error texts / String() outputs are opaque (only identity and %w chains are modelled)",
	"A-bounds: everything outside the stated bounds is outside the claim",
}

func boundsText(prop, tier string) string {
	if m, ok := propBounds[prop]; ok {
		if s, ok := m[tier]; ok {
			return s
		}
		return m["quick"]
	}
	return ""
}

func assumptionsFor(prop string) []string {
	return append(append([]string{}, propAssumptions[prop]...), commonAssumptions...)
}
