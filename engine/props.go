package main

// Per-property stated bounds and assumptions (copied into evidence).

var propBounds = map[string]map[string]string{}

var propAssumptions = map[string][]string{}

var commonAssumptions = []string{
	"A-bounds: everything outside the stated bounds is outside the claim",
	"A-fmt: error texts / String() outputs are opaque (only identity and %w chains are modelled)",
}

func boundsText(prop, tier string) string {
	if m, ok := propBounds[prop]; ok {
		if s, ok := m[tier]; ok {
			return s
		}
		return m["quick"]
	}
	return ""
}

func assumptionsFor(prop string) []string {
	return append(append([]string{}, propAssumptions[prop]...), commonAssumptions...)
}
