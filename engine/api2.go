package main

import (
	"unicode/utf8"

	"golang.org/x/tools/go/ssa"
)

func (e *Engine) harnessAPI2(name string, args []Value, fn *ssa.Function) (Value, bool) {
	if r, ok := e.nodeAPI(name, args); ok {
		return r, true
	}
	switch name {
	case "vRegister", "vLoadReplay", "vName", "vLookup", "vToBig":
		return nil, true
	case "vEcdsaVerdict":
		n := len(e.primLog)
		v := e.callStub("crypto/ecdsa.Verify", nil, args)
		e.primLog = e.primLog[:n] // oracle calls are not logged as implementation calls
		return v, true
	case "vECKeyValid":
		return e.mkECKey(e.argStr(args[0]), curveNameOf(args[1])), true
	case "vEcdsaSign":
		r, s, _ := e.ecdsaSignOK(args[0].(PtrV), args[1].(BytesV))
		return TupleV{r, s}, true
	case "vOnCurve":
		pub := e.load(args[0].(PtrV)).(*StructV)
		return e.tt.UF("onCurve", 0, e.intern("key", e.ecPubID(pub))), true
	case "vRSAKeyValid":
		p := e.mkRSAKey(e.argStr(args[0]))
		pub := e.load(p).(*StructV).fields[0].(*StructV)
		n, _ := e.bigOf(pub.fields[0])
		e.addPC(e.tt.Cmp("bvuge", n.bl, e.c64(2048)))
		return p, true
	case "vUTF8":
		r := args[0].(StrV).r
		if b, ok := ropeConcrete(r); ok {
			return e.tt.Bool(utf8.Valid(b)), true
		}
		return e.tt.UF("utf8valid", 0, e.intern("rope", e.ropeKey(r))), true
	case "vRand":
		return Iface{typ: e.fake("rand"), val: OpaqueV{kind: "rand"}}, true
	case "vHash":
		h := args[0].(*Term)
		n := len(e.primLog)
		r := e.hashOf(h, e.bytesRope(args[1].(BytesV)))
		e.primLog = e.primLog[:n]
		return e.bytesFromRope(r), true
	}
	return nil, false
}

// ---- CBOR tree API ------------------------------------------------------------------------------

func (e *Engine) nodeVal(n *Node) Value {
	if n == nil {
		return PtrV{}
	}
	if e.nodeCells == nil {
		e.nodeCells = map[*Node]*Cell{}
	}
	c, ok := e.nodeCells[n]
	if !ok {
		c = e.newCell(OpaqueV{kind: "node", data: n}, "cbor node")
		e.nodeCells[n] = c
	}
	return PtrV{cell: c}
}

func (e *Engine) nodeOf(v Value) *Node {
	p, ok := v.(PtrV)
	if !ok || p.isNil() {
		e.goPanic("nil *vNodeT dereference in harness")
	}
	return p.cell.val.(OpaqueV).data.(*Node)
}

func (e *Engine) widthArg(v Value, arg *Term) *Term {
	t := v.(*Term)
	// -1 = minimal
	if t.isConst() && t.i64() == -1 {
		return nil
	}
	return e.tt.Extract(t, 7, 0)
}

func (e *Engine) sliceNodes(v Value) []*Node {
	s := v.(SliceV)
	var out []*Node
	for i := 0; i < s.n; i++ {
		out = append(out, e.nodeOf(s.obj.elems[s.off+i]))
	}
	return out
}

func (e *Engine) nodeAPI(name string, args []Value) (Value, bool) {
	tt := e.tt
	switch name {
	case "vWidth":
		n := e.freshName(e.argStr(args[0]))
		w := tt.Var(n, 64)
		e.nondets = append(e.nondets, &Nondet{Name: n, Kind: "int64", Term: w})
		e.addPC(tt.Cmp("bvule", w, e.c64(8)))
		e.varBound[w.id] = ival{0, 8}
		e.addPC(e.widthLegal(tt.Extract(w, 7, 0), args[1].(*Term)))
		return w, true
	case "vMinWidth":
		return tt.ZExt(e.minWidth(args[0].(*Term)), 64), true
	case "nnInt":
		maj := e.argInt(args[0])
		n := e.newNode(maj, args[1].(*Term))
		n.wvar = e.widthArg(args[2], n.arg)
		return e.nodeVal(n), true
	case "nnBstr":
		b := args[0].(BytesV)
		n := e.newNode(2, b.n)
		n.content = e.bytesRope(b)
		n.wvar = e.widthArg(args[1], n.arg)
		return e.nodeVal(n), true
	case "nnTstr":
		s := args[0].(StrV)
		n := e.newNode(3, e.ropeLen(s.r))
		n.content = s.r
		n.wvar = e.widthArg(args[1], n.arg)
		return e.nodeVal(n), true
	case "nnArray", "nnMap":
		kids := e.sliceNodes(args[0])
		maj, cnt := 4, len(kids)
		if name == "nnMap" {
			maj, cnt = 5, len(kids)/2
		}
		n := e.newNode(maj, e.c64(uint64(cnt)))
		n.kids = kids
		n.wvar = e.widthArg(args[1], n.arg)
		return e.nodeVal(n), true
	case "nnTag":
		n := e.newNode(6, args[0].(*Term))
		n.kids = []*Node{e.nodeOf(args[1])}
		n.wvar = e.widthArg(args[2], n.arg)
		return e.nodeVal(n), true
	case "nnSimple":
		n := e.newNode(7, args[0].(*Term))
		n.wvar = e.widthArg(args[1], n.arg)
		return e.nodeVal(n), true
	case "nnIndef":
		o := e.nodeOf(args[0])
		c := *o
		e.nextObj++
		c.id = e.nextObj
		c.indef = true
		return e.nodeVal(&c), true
	case "nnEmbed":
		return e.nodeVal(e.rawNode(e.bytesRope(args[0].(BytesV)))), true
	case "vSer":
		b := e.bytesFromRope(Rope{SegItem{e.nodeOf(args[0])}})
		b.obj.tag = "input"
		return b, true
	case "vParse":
		r := e.bytesRope(args[0].(BytesV))
		if e.branch(tt.Eq(e.ropeLen(r), e.c64(0))) {
			return PtrV{}, true
		}
		n, rest, perr := e.parseOne(r)
		if perr != "" {
			return PtrV{}, true
		}
		if !e.branch(tt.Eq(e.ropeLen(rest), e.c64(0))) {
			return PtrV{}, true
		}
		return e.nodeVal(e.derefRaw(n)), true
	case "nMajor":
		return e.c64(uint64(e.derefRaw(e.nodeOf(args[0])).major)), true
	case "nArg":
		return e.derefRaw(e.nodeOf(args[0])).arg, true
	case "nWidth":
		return tt.ZExt(e.nodeWidth(e.derefRaw(e.nodeOf(args[0]))), 64), true
	case "nIsIndef":
		return tt.Bool(e.derefRaw(e.nodeOf(args[0])).indef), true
	case "nMinimal":
		n := e.derefRaw(e.nodeOf(args[0]))
		if n.indef {
			return tt.Bool(false), true
		}
		if n.wvar == nil {
			return tt.Bool(true), true
		}
		return tt.Eq(n.wvar, e.minWidth(n.arg)), true
	case "nLen":
		n := e.derefRaw(e.nodeOf(args[0]))
		if n.major == 5 {
			return e.c64(uint64(len(n.kids) / 2)), true
		}
		return e.c64(uint64(len(n.kids))), true
	case "nChild", "nKey", "nVal":
		n := e.derefRaw(e.nodeOf(args[0]))
		e.resolveOrder(n)
		i := e.argInt(args[1])
		if name == "nKey" {
			i = 2 * i
		} else if name == "nVal" {
			i = 2*i + 1
		}
		if i < 0 || i >= len(n.kids) {
			e.goPanic("harness: node child index out of range")
		}
		return e.nodeVal(e.derefRaw(n.kids[i])), true
	case "nBytes":
		n := e.derefRaw(e.nodeOf(args[0]))
		return e.bytesFromRope(n.content), true
	case "nRaw":
		return e.bytesFromRope(Rope{SegItem{e.nodeOf(args[0])}}), true
	}
	return nil, false
}
