package main

import (
	"fmt"
	"math/big"
	"go/types"

	"golang.org/x/tools/go/ssa"
)

func (e *Engine) harnessAPI2(name string, args []Value, fn *ssa.Function) (Value, bool) {
	if r, ok := e.nodeAPI(name, args); ok {
		return r, true
	}
	if r, ok := e.deepAPI(name, args); ok {
		return r, true
	}
	switch name {
	case "vRegister", "vLoadReplay", "vName", "vLookup", "vToBig":
		return nil, true
	case "vEcdsaVerdict":
		n := len(e.primLog)
		v := e.callStub("crypto/ecdsa.Verify", nil, args)
		e.primLog = e.primLog[:n] // oracle calls are not logged as implementation calls
		return v, true
	case "vECKeyValid":
		// a genuine key pair: (X, Y) is the public point of D (uninterpreted scalar multiplication)
		cn := curveNameOf(args[1])
		p := e.mkECKey(e.argStr(args[0]), cn)
		priv := e.load(p).(*StructV)
		pub := priv.fields[0].(*StructV)
		kc, kx, ky := e.ecKeyTerms(pub)
		d, _ := e.bigOf(priv.fields[1])
		d528 := e.tt.ZExt(d.mag, 528)
		e.addPC(e.tt.And(e.tt.Eq(e.tt.UF("pubX", 528, kc, d528), kx), e.tt.Eq(e.tt.UF("pubY", 528, kc, d528), ky), e.tt.UF("onCurve", 0, kc, kx, ky)))
		// counterexample models should need at most one leading zero byte per coordinate (the native replay searches for such a key)
		full := (realCurve(cn).Params().P.BitLen() + 7) / 8
		w := d.mag.w
		low := e.tt.BV(new(big.Int).Lsh(big.NewInt(1), uint(8*(full-2))), w)
		for _, nd := range e.nondets[len(e.nondets)-3 : len(e.nondets)-1] { // X, Y
			nd.Prefer = append(nd.Prefer, e.tt.Cmp("bvule", low, nd.Term))
		}
		return p, true
	case "vEcdsaSign":
		r, s, _ := e.ecdsaSignOK(args[0].(PtrV), args[1].(BytesV))
		return TupleV{r, s}, true
	case "vOnCurve":
		pub := e.load(args[0].(PtrV)).(*StructV)
		kc, kx, ky := e.ecKeyTerms(pub)
		return e.tt.UF("onCurve", 0, kc, kx, ky), true
	case "vRSAKeyValid":
		p := e.mkRSAKey(e.argStr(args[0]))
		pub := e.load(p).(*StructV).fields[0].(*StructV)
		n, _ := e.bigOf(pub.fields[0])
		e.addPC(e.tt.Cmp("bvuge", n.bl, e.c64(2048)))
		return p, true
	case "vUTF8":
		return e.utf8ValidOf(args[0].(StrV).r), true
	case "vEnvFailed":
		// did an environment primitive (signing, entropy) fail on this path? Natively they never do.
		return e.tt.Bool(e.envFailures > 0), true
	case "vInterleaved":
		// the solver side runs the bodies one after the other: what makes the interleavings equivalent is decided
		// by the frame condition (no writes to shared state) and the sync.Pool model; natively they run as goroutines
		for _, a := range args {
			if sl, ok := a.(SliceV); ok {
				for i := 0; i < sl.n; i++ {
					e.callFuncV(sl.obj.elems[sl.off+i].(*FuncV), nil)
				}
				continue
			}
			e.callFuncV(a.(*FuncV), nil)
		}
		return nil, true
	case "vYield":
		return nil, true
	case "vScribble":
		// the owner of a byte slice overwrites it: recorded as a store into its backing object (the contents
		// are not changed for the solver - what matters is who else can reach that memory)
		if b, ok := args[0].(BytesV); ok && b.obj != nil {
			e.noteWrite(b.obj.epoch, "scribble", b.obj.id, b.obj.tag)
			if r := e.bytesRoot(b.obj); r != nil && r != b.obj {
				e.noteWrite(r.epoch, "scribble", r.id, r.tag)
			}
		}
		return nil, true
	case "vFailRand":
		return Iface{typ: e.fake("rand"), val: OpaqueV{kind: "rand-fail", data: e.mkErr("entropy source failed (vFailRand)")}}, true
	case "vIsRandErr":
		rd := args[1].(Iface)
		if o, ok := rd.val.(OpaqueV); ok && o.kind == "rand-fail" {
			return e.tt.Bool(e.errorsIs(args[0].(Iface), o.data.(Iface), 0)), true
		}
		return e.tt.Bool(false), true
	case "vRand", "vYieldRand":
		return Iface{typ: e.fake("rand"), val: OpaqueV{kind: "rand"}}, true
	case "vEdVerdict":
		n := len(e.primLog)
		v := e.callStub("crypto/ed25519.Verify", nil, args)
		e.primLog = e.primLog[:n]
		return v, true
	case "vRSAVerdict":
		n := len(e.primLog)
		pub := e.load(args[0].(PtrV)).(*StructV)
		keyID := e.rsaPubID(pub)
		dig := e.bytesRope(args[2].(BytesV))
		sig := e.bytesRope(args[3].(BytesV))
		v := e.tt.UF("V_rsa", 0, e.intern("key", keyID), args[1].(*Term), e.tt.BVi(-1, 64), e.canonID(dig), e.canonID(sig))
		e.primLog = e.primLog[:n]
		return v, true
	case "vEdSign":
		r := e.callStub("(crypto/ed25519.PrivateKey).Sign", nil, []Value{args[0], Iface{}, args[1], Iface{}}).(TupleV)
		return r[0], true
	case "vRSAPSSSign":
		// same primitive as (*rsa.PrivateKey).Sign with PSS options {SaltLengthEqualsHash, hash}
		opts := &StructV{fields: []Value{e.tt.BVi(-1, 64), args[1].(*Term)}}
		optT := types.NewPointer(e.lookupType("crypto/rsa", "PSSOptions"))
		n := len(e.nondets)
		e.forceOK = true
		r := e.callStub("(*crypto/rsa.PrivateKey).Sign", nil, []Value{args[0], Iface{}, args[2], Iface{typ: optT, val: PtrV{cell: e.newCell(opts, "pssopts")}}}).(TupleV)
		e.forceOK = false
		_ = n
		return r[0], true
	case "vHash":
		h := args[0].(*Term)
		n := len(e.primLog)
		r := e.hashOf(h, e.bytesRope(args[1].(BytesV)))
		e.primLog = e.primLog[:n]
		return e.bytesFromRope(r), true
	}
	return nil, false
}

// ---- CBOR tree API ------------------------------------------------------------------------------

func (e *Engine) nodeVal(n *Node) Value {
	if n == nil {
		return PtrV{}
	}
	if e.nodeCells == nil {
		e.nodeCells = map[*Node]*Cell{}
	}
	c, ok := e.nodeCells[n]
	if !ok {
		c = e.newCell(OpaqueV{kind: "node", data: n}, "cbor node")
		e.nodeCells[n] = c
	}
	return PtrV{cell: c}
}

func (e *Engine) nodeOf(v Value) *Node {
	p, ok := v.(PtrV)
	if !ok || p.isNil() {
		e.goPanic("nil *vNodeT dereference in harness")
	}
	return p.cell.val.(OpaqueV).data.(*Node)
}

func (e *Engine) widthArg(v Value, arg *Term) *Term {
	t := v.(*Term)
	// -1 = minimal
	if t.isConst() && t.i64() == -1 {
		return nil
	}
	return e.tt.Extract(t, 7, 0)
}

func (e *Engine) sliceNodes(v Value) []*Node {
	s := v.(SliceV)
	var out []*Node
	for i := 0; i < s.n; i++ {
		out = append(out, e.nodeOf(s.obj.elems[s.off+i]))
	}
	return out
}

func (e *Engine) nodeAPI(name string, args []Value) (Value, bool) {
	tt := e.tt
	switch name {
	case "vWidth":
		n := e.freshName(e.argStr(args[0]))
		w := tt.Var(n, 64)
		e.nondets = append(e.nondets, &Nondet{Name: n, Kind: "int64", Term: w})
		e.addPC(tt.Cmp("bvule", w, e.c64(8)))
		e.varBound[w.id] = ival{0, 8}
		e.addPC(e.widthLegal(tt.Extract(w, 7, 0), args[1].(*Term)))
		return w, true
	case "vMinWidth":
		return tt.ZExt(e.minWidth(args[0].(*Term)), 64), true
	case "nnInt":
		maj := e.argInt(args[0])
		n := e.newNode(maj, args[1].(*Term))
		n.wvar = e.widthArg(args[2], n.arg)
		return e.nodeVal(n), true
	case "nnBstr":
		b := args[0].(BytesV)
		n := e.newNode(2, b.n)
		n.content = e.bytesRope(b)
		n.wvar = e.widthArg(args[1], n.arg)
		return e.nodeVal(n), true
	case "nnTstr":
		s := args[0].(StrV)
		n := e.newNode(3, e.ropeLen(s.r))
		n.content = s.r
		n.wvar = e.widthArg(args[1], n.arg)
		return e.nodeVal(n), true
	case "nnArray", "nnMap":
		kids := e.sliceNodes(args[0])
		maj, cnt := 4, len(kids)
		if name == "nnMap" {
			maj, cnt = 5, len(kids)/2
		}
		n := e.newNode(maj, e.c64(uint64(cnt)))
		n.kids = kids
		n.wvar = e.widthArg(args[1], n.arg)
		return e.nodeVal(n), true
	case "nnTag":
		n := e.newNode(6, args[0].(*Term))
		n.kids = []*Node{e.nodeOf(args[1])}
		n.wvar = e.widthArg(args[2], n.arg)
		return e.nodeVal(n), true
	case "nnSimple":
		n := e.newNode(7, args[0].(*Term))
		n.wvar = e.widthArg(args[1], n.arg)
		return e.nodeVal(n), true
	case "nnIndef":
		o := e.nodeOf(args[0])
		c := *o
		e.nextObj++
		c.id = e.nextObj
		c.indef = true
		return e.nodeVal(&c), true
	case "nnEmbed":
		return e.nodeVal(e.rawNode(e.bytesRope(args[0].(BytesV)))), true
	case "vSer":
		b := e.bytesFromRope(Rope{SegItem{e.nodeOf(args[0])}})
		b.obj.tag = "input"
		return b, true
	case "vParse":
		r := e.bytesRope(args[0].(BytesV))
		if e.branch(tt.Eq(e.ropeLen(r), e.c64(0))) {
			return PtrV{}, true
		}
		n, rest, perr := e.parseOne(r)
		if perr != "" {
			return PtrV{}, true
		}
		if !e.branch(tt.Eq(e.ropeLen(rest), e.c64(0))) {
			return PtrV{}, true
		}
		return e.nodeVal(e.derefRaw(n)), true
	case "nMajor":
		return e.c64(uint64(e.derefRaw(e.nodeOf(args[0])).major)), true
	case "nArg":
		return e.derefRaw(e.nodeOf(args[0])).arg, true
	case "nWidth":
		return tt.ZExt(e.nodeWidth(e.derefRaw(e.nodeOf(args[0]))), 64), true
	case "nIsIndef":
		return tt.Bool(e.derefRaw(e.nodeOf(args[0])).indef), true
	case "nMinimal":
		n := e.derefRaw(e.nodeOf(args[0]))
		if n.indef {
			return tt.Bool(false), true
		}
		if n.wvar == nil {
			return tt.Bool(true), true
		}
		return tt.Eq(n.wvar, e.minWidth(n.arg)), true
	case "nLen":
		n := e.derefRaw(e.nodeOf(args[0]))
		if n.major == 5 {
			return e.c64(uint64(len(n.kids) / 2)), true
		}
		return e.c64(uint64(len(n.kids))), true
	case "nChild", "nKey", "nVal":
		n := e.derefRaw(e.nodeOf(args[0]))
		e.resolveOrder(n)
		i := e.argInt(args[1])
		if name == "nKey" {
			i = 2 * i
		} else if name == "nVal" {
			i = 2*i + 1
		}
		if i < 0 || i >= len(n.kids) {
			e.goPanic("harness: node child index out of range")
		}
		return e.nodeVal(e.derefRaw(n.kids[i])), true
	case "nBytes":
		n := e.derefRaw(e.nodeOf(args[0]))
		return e.bytesFromRope(n.content), true
	case "nRaw":
		return e.bytesFromRope(Rope{SegItem{e.nodeOf(args[0])}}), true
	}
	return nil, false
}

// ---- deep structural helpers (C09, C18, C19) -----------------------------------------------------------

func (e *Engine) bytesRoot(o *BytesObj) *BytesObj {
	for o != nil && o.aliasOf != nil {
		o = o.aliasOf
	}
	return o
}

// collectBytes gathers the backing objects of every byte slice reachable from v.
func (e *Engine) collectBytes(v Value, seen map[interface{}]bool, out map[*BytesObj]bool) {
	switch x := v.(type) {
	case BytesV:
		if x.obj != nil {
			out[e.bytesRoot(x.obj)] = true
		}
	case SliceV:
		if x.obj != nil && !seen[x.obj] {
			seen[x.obj] = true
			for i := 0; i < x.n; i++ {
				e.collectBytes(x.obj.elems[x.off+i], seen, out)
			}
		}
	case *StructV:
		for _, f := range x.fields {
			e.collectBytes(f, seen, out)
		}
	case *ArrayV:
		for _, f := range x.elems {
			e.collectBytes(f, seen, out)
		}
	case PtrV:
		if x.cell != nil && !seen[x.cell] {
			seen[x.cell] = true
			e.collectBytes(getPath(x.cell.val, x.path), seen, out)
		}
		if x.arr != nil {
			e.collectBytes(x.arr.elems[x.idx], seen, out)
		}
	case MapV:
		if x.obj != nil && !seen[x.obj] {
			seen[x.obj] = true
			for _, en := range x.obj.entries {
				e.collectBytes(en.k, seen, out)
				e.collectBytes(en.v, seen, out)
			}
		}
	case Iface:
		if x.typ != nil {
			e.collectBytes(x.val, seen, out)
		}
	}
}

func (e *Engine) deepEqual(a, b Value, depth int) *Term {
	tt := e.tt
	if depth > 60 {
		e.unsupported("vDeepEqual: too deep")
	}
	switch x := a.(type) {
	case *Term:
		y, ok := b.(*Term)
		if !ok || x.w != y.w {
			return tt.Bool(false)
		}
		return tt.Eq(x, y)
	case StrV:
		y, ok := b.(StrV)
		if !ok {
			return tt.Bool(false)
		}
		return e.ropeEq(x.r, y.r)
	case BytesV:
		y, ok := b.(BytesV)
		if !ok || (x.obj == nil) != (y.obj == nil) {
			return tt.Bool(false)
		}
		if x.obj == nil {
			return tt.Bool(true)
		}
		return e.ropeEq(e.bytesRope(x), e.bytesRope(y))
	case SliceV:
		y, ok := b.(SliceV)
		if !ok || (x.obj == nil) != (y.obj == nil) || x.n != y.n {
			return tt.Bool(false)
		}
		var conj []*Term
		for i := 0; i < x.n; i++ {
			conj = append(conj, e.deepEqual(x.obj.elems[x.off+i], y.obj.elems[y.off+i], depth+1))
		}
		return tt.And(conj...)
	case *StructV:
		y, ok := b.(*StructV)
		if !ok || len(x.fields) != len(y.fields) {
			return tt.Bool(false)
		}
		var conj []*Term
		for i := range x.fields {
			conj = append(conj, e.deepEqual(x.fields[i], y.fields[i], depth+1))
		}
		return tt.And(conj...)
	case PtrV:
		y, ok := b.(PtrV)
		if !ok || x.isNil() != y.isNil() {
			return tt.Bool(false)
		}
		if x.isNil() {
			return tt.Bool(true)
		}
		return e.deepEqual(e.load(x), e.load(y), depth+1)
	case MapV:
		y, ok := b.(MapV)
		if !ok || (x.obj == nil) != (y.obj == nil) {
			return tt.Bool(false)
		}
		if x.obj == nil {
			return tt.Bool(true)
		}
		if len(x.obj.entries) != len(y.obj.entries) {
			return tt.Bool(false)
		}
		var conj []*Term
		for _, en := range x.obj.entries {
			i := e.mapFind(y.obj, en.k)
			if i < 0 {
				return tt.Bool(false)
			}
			conj = append(conj, e.deepEqual(en.v, y.obj.entries[i].v, depth+1))
		}
		return tt.And(conj...)
	case Iface:
		y, ok := b.(Iface)
		if !ok || (x.typ == nil) != (y.typ == nil) {
			return tt.Bool(false)
		}
		if x.typ == nil {
			return tt.Bool(true)
		}
		if !types.Identical(x.typ, y.typ) {
			return tt.Bool(false)
		}
		return e.deepEqual(x.val, y.val, depth+1)
	case *FuncV:
		y, ok := b.(*FuncV)
		return tt.Bool(ok && x == nil && y == nil)
	case OpaqueV:
		y, ok := b.(OpaqueV)
		return tt.Bool(ok && x.kind == y.kind)
	case BigV:
		y, ok := b.(BigV)
		if !ok {
			return tt.Bool(false)
		}
		xm, ym := e.unify(x.mag, y.mag)
		return tt.And(tt.Eq(xm, ym), tt.Eq(x.neg, y.neg))
	case nil:
		return tt.Bool(b == nil)
	}
	e.unsupported(fmt.Sprintf("vDeepEqual on %T", a))
	return nil
}

// collectIDs gathers the ids of every heap object reachable from v.
func (e *Engine) collectIDs(v Value, ids map[int]bool) {
	switch x := v.(type) {
	case BytesV:
		if x.obj != nil {
			ids[x.obj.id] = true
			if r := e.bytesRoot(x.obj); r != nil {
				ids[r.id] = true
			}
		}
	case SliceV:
		if x.obj != nil && !ids[x.obj.id] {
			ids[x.obj.id] = true
			for i := 0; i < x.n; i++ {
				e.collectIDs(x.obj.elems[x.off+i], ids)
			}
		}
	case *StructV:
		for _, f := range x.fields {
			e.collectIDs(f, ids)
		}
	case *ArrayV:
		for _, f := range x.elems {
			e.collectIDs(f, ids)
		}
	case PtrV:
		if x.cell != nil && !ids[x.cell.id] {
			ids[x.cell.id] = true
			e.collectIDs(getPath(x.cell.val, x.path), ids)
		}
		if x.arr != nil {
			ids[x.arr.id] = true
			e.collectIDs(x.arr.elems[x.idx], ids)
		}
	case MapV:
		if x.obj != nil && !ids[x.obj.id] {
			ids[x.obj.id] = true
			for _, en := range x.obj.entries {
				e.collectIDs(en.k, ids)
				e.collectIDs(en.v, ids)
			}
		}
	case Iface:
		if x.typ != nil {
			e.collectIDs(x.val, ids)
		}
	}
}

func (e *Engine) deepAPI(name string, args []Value) (Value, bool) {
	switch name {
	case "vSnapshot":
		return PtrV{cell: e.newCell(OpaqueV{kind: "snapshot"}, "snapshot")}, true
	case "vChanged":
		ids := map[int]bool{}
		e.collectIDs(args[0], ids)
		for _, id := range e.preWriteIDs {
			if ids[id] {
				return e.tt.Bool(true), true
			}
		}
		return e.tt.Bool(false), true
	case "vGlobalWrites":
		return e.c64(uint64(e.globalWrites)), true
	case "vWritesInto":
		ids := map[int]bool{}
		e.collectIDs(args[0], ids)
		n := 0
		for _, id := range e.preWriteIDs {
			if ids[id] {
				n++
			}
		}
		return e.c64(uint64(n)), true
	case "vDeepEqual":
		return e.deepEqual(args[0], args[1], 0), true
	case "vAliases":
		roots := map[*BytesObj]bool{}
		e.collectBytes(args[0], map[interface{}]bool{}, roots)
		b := args[1].(BytesV)
		if b.obj == nil {
			return e.tt.Bool(false), true
		}
		return e.tt.Bool(roots[e.bytesRoot(b.obj)]), true
	}
	return nil, false
}
