package main

import "golang.org/x/tools/go/ssa"

func (e *Engine) harnessAPI2(name string, args []Value, fn *ssa.Function) (Value, bool) {
	switch name {
	case "vRegister", "vLoadReplay", "vName", "vLookup", "vToBig":
		return nil, true
	case "vEcdsaVerdict":
		n := len(e.primLog)
		v := e.callStub("crypto/ecdsa.Verify", nil, args)
		e.primLog = e.primLog[:n] // oracle calls are not logged as implementation calls
		return v, true
	case "vECKeyValid":
		return e.mkECKey(e.argStr(args[0]), curveNameOf(args[1])), true
	case "vEcdsaSign":
		r, s, _ := e.ecdsaSignOK(args[0].(PtrV), args[1].(BytesV))
		return TupleV{r, s}, true
	case "vOnCurve":
		pub := e.load(args[0].(PtrV)).(*StructV)
		return e.tt.UF("onCurve", 0, e.intern("key", e.ecPubID(pub))), true
	case "vRSAKeyValid":
		p := e.mkRSAKey(e.argStr(args[0]))
		pub := e.load(p).(*StructV).fields[0].(*StructV)
		n, _ := e.bigOf(pub.fields[0])
		e.addPC(e.tt.Cmp("bvuge", n.bl, e.c64(2048)))
		return p, true
	case "vRand":
		return Iface{typ: e.fake("rand"), val: OpaqueV{kind: "rand"}}, true
	case "vHash":
		h := args[0].(*Term)
		n := len(e.primLog)
		r := e.hashOf(h, e.bytesRope(args[1].(BytesV)))
		e.primLog = e.primLog[:n]
		return e.bytesFromRope(r), true
	}
	return nil, false
}
