package main

// Interception of the v* harness API (native bodies live in /verif/harness/v_api.go).

import (
	"fmt"
	"strings"
	"go/types"

	"golang.org/x/tools/go/ssa"
)

func (e *Engine) argStr(v Value) string {
	s, ok := e.concreteString(v)
	if !ok {
		e.unsupported("harness API name/label must be a constant string")
	}
	return s
}

func (e *Engine) argInt(v Value) int {
	t := v.(*Term)
	if !t.isConst() {
		k, ok := e.concretize(t, 64)
		if !ok {
			e.unsupported("harness API int argument must be concretizable")
		}
		return int(int64(k))
	}
	return int(t.i64())
}

func (e *Engine) lookupType(pkgPath, name string) types.Type {
	key := pkgPath + "." + name
	if t, ok := e.Program.typeCache.Load(key); ok {
		return t.(types.Type)
	}
	for _, p := range e.prog.AllPackages() {
		if p.Pkg.Path() == pkgPath {
			if m := p.Members[name]; m != nil {
				e.Program.typeCache.Store(key, m.Type())
				return m.Type()
			}
		}
	}
	e.unsupported("type not found: " + pkgPath + "." + name)
	return nil
}

func (e *Engine) newBlob(name string, lo, hi uint64) BytesV {
	garbage := strings.HasPrefix(name, "garbage:")
	name = strings.TrimPrefix(name, "garbage:")
	n := e.freshName(name)
	arr := e.tt.Var("blob:"+n, sortArray)
	if garbage {
		arr = e.tt.Var("blob:garbage:"+n, sortArray)
	}
	l := e.tt.Var("len:"+n, 64)
	e.nondets = append(e.nondets, &Nondet{Name: n, Kind: "blob", Term: l, Arr: arr})
	if lo == hi {
		l = e.c64(lo)
		e.nondets[len(e.nondets)-1].Term = l
	} else {
		e.addPC(e.tt.And(e.tt.Cmp("bvule", e.c64(lo), l), e.tt.Cmp("bvule", l, e.c64(hi))))
		e.varBound[l.id] = ival{lo, hi}
	}
	var r Rope
	if !(l.isConst() && l.u64() == 0) {
		r = Rope{SegBlob{arr, e.c64(0), l}}
	}
	o := e.newBytesObj(r, l)
	o.tag = "blob:" + n
	return BytesV{obj: o, off: e.c64(0), n: l, cap: l}
}

func (e *Engine) harnessAPI(name string, args []Value, fn *ssa.Function) (Value, bool) {
	tt := e.tt
	switch name {
	case "vBool":
		n := e.freshName(e.argStr(args[0]))
		t := tt.Var(n, 0)
		e.nondets = append(e.nondets, &Nondet{Name: n, Kind: "bool", Term: t})
		return t, true
	case "vInt64", "vUint64", "vByte", "vInt":
		n := e.freshName(e.argStr(args[0]))
		w := 64
		kind := "int64"
		if name == "vUint64" {
			kind = "uint64"
		}
		if name == "vByte" {
			w, kind = 8, "uint64"
		}
		t := tt.Var(n, w)
		e.nondets = append(e.nondets, &Nondet{Name: n, Kind: kind, Term: t})
		return t, true
	case "vChoose":
		n := e.freshName(e.argStr(args[0]))
		k := e.argInt(args[1])
		c := e.choose(k)
		e.nondets = append(e.nondets, &Nondet{Name: n, Kind: "choose", W: c})
		return e.c64(uint64(c)), true
	case "vBlob":
		return e.newBlob(e.argStr(args[0]), 0, 1<<31-1), true
	case "vBlobN":
		return e.newBlob(e.argStr(args[0]), uint64(e.argInt(args[1])), uint64(e.argInt(args[2]))), true
	case "vGarbage":
		return e.newBlob("garbage:"+e.argStr(args[0]), uint64(e.argInt(args[1])), uint64(e.argInt(args[2]))), true
	case "vStr":
		// string with concrete length chosen by forking (0..max), symbolic bytes
		n := e.freshName(e.argStr(args[0]))
		max := e.argInt(args[1])
		l := e.choose(max + 1)
		nd := &Nondet{Name: n, Kind: "str", W: l}
		var r Rope
		for i := 0; i < l; i++ {
			b := tt.Var(fmt.Sprintf("%s[%d]", n, i), 8)
			nd.Aux = append(nd.Aux, b)
			r = append(r, SegSym{b})
		}
		e.nondets = append(e.nondets, nd)
		return StrV{r}, true
	case "vBig":
		n := e.freshName(e.argStr(args[0]))
		bits := e.argInt(args[1])
		t := tt.Var(n, bits)
		e.nondets = append(e.nondets, &Nondet{Name: n, Kind: "big", Term: t})
		return e.newBig(t, tt.Bool(false)), true
	case "vBigSigned":
		n := e.freshName(e.argStr(args[0]))
		bits := e.argInt(args[1])
		t := tt.Var(n, bits)
		neg := tt.Var(n+".neg", 0)
		e.nondets = append(e.nondets, &Nondet{Name: n, Kind: "big", Term: t}, &Nondet{Name: n + ".neg", Kind: "bool", Term: neg})
		return e.newBig(t, neg), true
	case "vCurve":
		n := e.freshName(e.argStr(args[0]))
		c := e.choose(3)
		e.nondets = append(e.nondets, &Nondet{Name: n, Kind: "choose", W: c})
		return e.curveValue([]string{"P-256", "P-384", "P-521"}[c]), true
	case "vCurveByIndex":
		return e.curveValue([]string{"P-256", "P-384", "P-521", "P-224"}[e.argInt(args[0])]), true
	case "vAssume":
		e.assume(args[0].(*Term))
		return nil, true
	case "vAssert":
		e.assertObl(e.argStr(args[0]), args[1].(*Term))
		return nil, true
	case "vReach":
		e.res.reached = append(e.res.reached, e.argStr(args[0]))
		if e.res.sample == "" {
			e.res.sample = e.pathSample()
		}
		return nil, true
	case "vKnown":
		id := e.argStr(args[0])
		c := args[1].(*Term)
		if old, ok := e.known[id]; ok {
			c = tt.Or(old, c)
		}
		e.known[id] = c
		return nil, true
	case "vMapOrder":
		// quick: three global schedules (insertion order / reversed / rotated), each applied to every range statement;
		// thorough: every range statement picks its own permutation
		e.mapOrderNondet = true
		e.mapOrderMode = -1
		if e.tier != "thorough" {
			if e.mapOrderDrawn {
				// a repeated call moves on to the next schedule (no further fork): the pairs (0,1) (1,2) (2,0) are covered
				e.mapOrderMode = (e.mapOrderPrev + 1) % 3
				e.mapOrderPrev = e.mapOrderMode
			} else {
				e.mapOrderMode = e.choose(3)
				e.mapOrderPrev = e.mapOrderMode
				e.mapOrderDrawn = true
				e.nondets = append(e.nondets, &Nondet{Name: "maporder", Kind: "choose", W: e.mapOrderMode})
			}
		}
		return nil, true
	case "vMapOrderOff":
		e.mapOrderNondet = false
		return nil, true
	case "vFreeze":
		e.epoch++
		e.frozen = e.epoch
		e.preWrites = 0
		e.preWriteLog = nil
		e.preWriteIDs = nil
		e.globalWrites = 0
		return nil, true
	case "vUnfreeze":
		e.frozen = 0
		return nil, true
	case "vWrites":
		return e.c64(uint64(e.preWrites)), true
	case "vTier":
		if e.tier == "thorough" {
			return e.c64(1), true
		}
		return e.c64(0), true
	case "vRopeEq":
		return e.ropeEq(e.bytesRope(args[0].(BytesV)), e.bytesRope(args[1].(BytesV))), true
	case "vIsNilBytes":
		return tt.Bool(args[0].(BytesV).obj == nil), true
	case "vECKey":
		return e.mkECKey(e.argStr(args[0]), curveNameOf(args[1])), true
	case "vRSAKey":
		return e.mkRSAKey(e.argStr(args[0])), true
	case "vEdKey":
		b := e.newBlob(e.argStr(args[0]), 64, 64)
		return b, true
	case "vPrimCalls":
		kind := e.argStr(args[0])
		c := 0
		for _, p := range e.primLog {
			if p.Kind == kind {
				c++
			}
		}
		return e.c64(uint64(c)), true
	case "vExpectBool", "vExpectInt":
		// differential hook: the model's value of an observable is stored with the witness and compared natively
		n := "expect:" + e.freshName("x:"+e.argStr(args[0]))
		t := args[1].(*Term)
		kind := "bool"
		if name == "vExpectInt" {
			kind = "int64"
		}
		e.nondets = append(e.nondets, &Nondet{Name: n, Kind: kind, Term: t})
		return nil, true
	case "vOr":
		return tt.Or(args[0].(*Term), args[1].(*Term)), true
	case "vAnd":
		return tt.And(args[0].(*Term), args[1].(*Term)), true
	case "vImplies":
		return tt.Implies(args[0].(*Term), args[1].(*Term)), true
	case "vNote", "vLogErr":
		return nil, true
	}
	if r, ok := e.harnessAPI2(name, args, fn); ok {
		return r, true
	}
	return nil, false
}

func (e *Engine) pathSample() string {
	s := ""
	for i, nd := range e.nondets {
		if i > 12 {
			s += " …"
			break
		}
		if nd.Kind == "choose" || nd.Kind == "str" {
			s += fmt.Sprintf(" %s=%d", nd.Name, nd.W)
		} else {
			s += " " + nd.Name
		}
	}
	return fmt.Sprintf("trace=%s nondets:%s |pc|=%d", traceStr(e.trace), s, len(e.pc))
}

// assertObl discharges one obligation.
func (e *Engine) assertObl(label string, cond *Term) {
	e.res.asserts++
	tt := e.tt
	if cond.isTrue() {
		e.res.discharged++
		return
	}
	ncond := tt.Not(cond)
	// exclusion of active known findings
	var excl []*Term
	var activeIDs []string
	for id, c := range e.known {
		if e.Program.knownActive(id) {
			excl = append(excl, tt.Not(c))
			activeIDs = append(activeIDs, id)
		}
	}
	q := append([]*Term{ncond}, excl...)
	r, _ := e.solver.CheckInc(e.pc, q, nil)
	switch r {
	case rUnsat:
		if len(excl) > 0 {
			// does it fail inside a known region?
			for _, id := range activeIDs {
				r2, _ := e.solver.CheckInc(e.pc, []*Term{ncond, e.known[id]}, nil)
				if r2 == rSat {
					e.res.knownHits[id] = true
				}
			}
		}
		e.res.discharged++
	case rSat:
		e.reportViolation(label, "assert", append([]*Term{ncond}, excl...))
	default:
		e.res.inconcl++
		e.res.degraded = true
	}
	// continue under the asserted condition
	if !cond.isFalse() {
		if e.check(cond) == rUnsat {
			e.endPath("done", "assertion always false here")
		}
		e.addPC(cond)
	} else {
		e.endPath("done", "assertion false")
	}
}

func (e *Engine) mkECKey(name, curve string) PtrV {
	n := e.freshName(name)
	w := map[string]int{"P-256": 256, "P-384": 384, "P-521": 528, "P-224": 224}[curve]
	x, y, d := e.tt.Var(n+".X", w), e.tt.Var(n+".Y", w), e.tt.Var(n+".D", w)
	for _, t := range []*Term{x, y, d} {
		e.nondets = append(e.nondets, &Nondet{Name: t.name, Kind: "big", Term: t})
	}
	P := e.tt.BV(realCurve(curve).Params().P, w)
	N := e.tt.BV(realCurve(curve).Params().N, w)
	e.addPC(e.tt.And(e.tt.Cmp("bvult", x, P), e.tt.Cmp("bvult", y, P), e.tt.Cmp("bvult", d, N), e.tt.Ne(d, e.tt.BVu(0, w))))
	f := e.tt.Bool(false)
	pub := &StructV{fields: []Value{e.curveValue(curve), e.newBig(x, f), e.newBig(y, f)}}
	priv := &StructV{fields: []Value{pub, e.newBig(d, f)}}
	return PtrV{cell: e.newCell(priv, "ecdsa.PrivateKey:"+n)}
}

func (e *Engine) mkRSAKey(name string) PtrV {
	n := e.freshName(name)
	id := e.tt.Var(n+".N", 64)
	bl := e.tt.Var(n+".bits", 64)
	e.nondets = append(e.nondets, &Nondet{Name: n + ".bits", Kind: "uint64", Term: bl})
	e.addPC(e.tt.And(e.tt.Cmp("bvule", bl, e.c64(8192)), e.tt.Cmp("bvuge", bl, e.c64(2))))
	N := PtrV{cell: e.newCell(BigV{mag: id, neg: e.tt.Bool(false), bl: bl}, "rsa.N")}
	pub := &StructV{fields: []Value{N, e.tt.BVi(65537, 64)}}
	// rsa.PrivateKey{PublicKey, D, Primes, Precomputed}: only PublicKey is ever touched
	rsaT := e.lookupType("crypto/rsa", "PrivateKey")
	priv := e.zero(rsaT).(*StructV)
	fs := append([]Value{}, priv.fields...)
	fs[0] = pub
	return PtrV{cell: e.newCell(&StructV{fields: fs}, "rsa.PrivateKey:"+n)}
}
