package main

// Cheap syntactic interval analysis (unsigned, widths <= 64) used to decide
// trivial branch conditions such as bounds checks without a solver call.
// Sound: an answer is given only when the intervals prove it.

type ival struct {
	lo, hi uint64
}

func fullIval(w int) ival {
	if w >= 64 {
		return ival{0, ^uint64(0)}
	}
	return ival{0, 1<<uint(w) - 1}
}

func (w *Worker) bounds(t *Term) ival {
	if t.w <= 0 || t.w > 64 {
		return ival{0, ^uint64(0)}
	}
	if r, ok := w.bmemo[t.id]; ok {
		return r
	}
	r := w.bounds0(t)
	f := fullIval(t.w)
	if r.hi > f.hi {
		r = f
	}
	w.bmemo[t.id] = r
	return r
}

func (w *Worker) bounds0(t *Term) ival {
	full := fullIval(t.w)
	switch t.op {
	case "const":
		return ival{t.u64(), t.u64()}
	case "var":
		if b, ok := w.varBound[t.id]; ok {
			return b
		}
		return full
	case "zext":
		return w.bounds(t.args[0])
	case "extract":
		if t.p2 == 0 {
			in := w.bounds(t.args[0])
			if t.args[0].w <= 64 && in.hi <= full.hi {
				return in
			}
		}
		return full
	case "bvadd":
		a, b := w.bounds(t.args[0]), w.bounds(t.args[1])
		hi := a.hi + b.hi
		if hi < a.hi || hi > full.hi { // overflow possible
			return full
		}
		return ival{a.lo + b.lo, hi}
	case "bvsub":
		a, b := w.bounds(t.args[0]), w.bounds(t.args[1])
		if a.lo >= b.hi {
			return ival{a.lo - b.hi, a.hi - b.lo}
		}
		return full
	case "ite":
		a, b := w.bounds(t.args[1]), w.bounds(t.args[2])
		r := a
		if b.lo < r.lo {
			r.lo = b.lo
		}
		if b.hi > r.hi {
			r.hi = b.hi
		}
		return r
	case "bvand":
		a, b := w.bounds(t.args[0]), w.bounds(t.args[1])
		hi := a.hi
		if b.hi < hi {
			hi = b.hi
		}
		return ival{0, hi}
	case "bitlen", "bytelen":
		return ival{0, uint64(t.args[0].w)}
	case "concat":
		if t.args[0].isConst() && t.args[0].val.Sign() == 0 {
			return w.bounds(t.args[1])
		}
	}
	return full
}

// decide evaluates a boolean term with intervals: (value, known).
func (w *Worker) decide(c *Term) (bool, bool) {
	switch c.op {
	case "const":
		return c.isTrue(), true
	case "not":
		v, ok := w.decide(c.args[0])
		return !v, ok
	case "and":
		all := true
		for _, a := range c.args {
			v, ok := w.decide(a)
			if ok && !v {
				return false, true
			}
			if !ok {
				all = false
			}
		}
		return true, all
	case "or":
		all := true
		for _, a := range c.args {
			v, ok := w.decide(a)
			if ok && v {
				return true, true
			}
			if !ok {
				all = false
			}
		}
		return false, all
	case "=":
		a, b := c.args[0], c.args[1]
		if a.w <= 0 || a.w > 64 {
			return false, false
		}
		x, y := w.bounds(a), w.bounds(b)
		if x.hi < y.lo || y.hi < x.lo {
			return false, true
		}
		if x.lo == x.hi && y.lo == y.hi && x.lo == y.lo {
			return true, true
		}
	case "bvult", "bvule", "bvslt", "bvsle":
		a, b := c.args[0], c.args[1]
		if a.w > 64 {
			return false, false
		}
		x, y := w.bounds(a), w.bounds(b)
		if c.op[2] == 's' {
			// signed: only when both are provably non-negative
			top := uint64(1)<<uint(a.w-1) - 1
			if x.hi > top || y.hi > top {
				return false, false
			}
		}
		strict := c.op == "bvult" || c.op == "bvslt"
		if strict {
			if x.hi < y.lo {
				return true, true
			}
			if x.lo >= y.hi {
				return false, true
			}
		} else {
			if x.hi <= y.lo {
				return true, true
			}
			if x.lo > y.hi {
				return false, true
			}
		}
	}
	return false, false
}

// ---- linear cancellation of length sums ------------------------------------------------------------------

// flattenSum splits a 64-bit term into atoms and a constant (through bvadd only).
func flattenSum(t *Term, atoms *[]*Term, c *uint64) {
	switch {
	case t.op == "const":
		*c += t.u64()
	case t.op == "bvadd":
		flattenSum(t.args[0], atoms, c)
		flattenSum(t.args[1], atoms, c)
	default:
		*atoms = append(*atoms, t)
	}
}

// cancel rewrites a comparison between two sums by removing common atoms and
// constants; valid only when neither sum can wrap (checked with intervals).
func (w *Worker) cancel(c *Term) *Term {
	neg := false
	x := c
	if x.op == "not" {
		neg = true
		x = x.args[0]
	}
	if x.op != "bvule" && x.op != "bvult" && x.op != "=" {
		return c
	}
	a, b := x.args[0], x.args[1]
	if a.w != 64 || (a.op != "bvadd" && b.op != "bvadd") {
		return c
	}
	const lim = uint64(1) << 62
	if w.bounds(a).hi >= lim || w.bounds(b).hi >= lim {
		return c
	}
	var aa, ba []*Term
	var ac, bc uint64
	flattenSum(a, &aa, &ac)
	flattenSum(b, &ba, &bc)
	// cancel common atoms (multiset)
	changed := false
	for i := 0; i < len(aa); i++ {
		for j := 0; j < len(ba); j++ {
			if aa[i] != nil && ba[j] != nil && aa[i] == ba[j] {
				aa[i], ba[j] = nil, nil
				changed = true
				break
			}
		}
	}
	if ac >= bc && bc > 0 {
		ac, bc, changed = ac-bc, 0, true
	} else if bc > ac && ac > 0 {
		bc, ac, changed = bc-ac, 0, true
	}
	if !changed {
		return c
	}
	build := func(atoms []*Term, k uint64) *Term {
		var acc *Term
		for _, t := range atoms {
			if t == nil {
				continue
			}
			if acc == nil {
				acc = t
			} else {
				acc = w.tt.Bin("bvadd", acc, t)
			}
		}
		if acc == nil {
			return w.tt.BVu(k, 64)
		}
		if k != 0 {
			acc = w.tt.Bin("bvadd", acc, w.tt.BVu(k, 64))
		}
		return acc
	}
	na, nb := build(aa, ac), build(ba, bc)
	var r *Term
	if x.op == "=" {
		r = w.tt.Eq(na, nb)
	} else {
		r = w.tt.Cmp(x.op, na, nb)
	}
	if neg {
		r = w.tt.Not(r)
	}
	return r
}
