package main

// Path exploration by re-execution: a path is identified by its decision
// vector; any engine code may call branch()/choose() on symbolic conditions.

import (
	"fmt"
	"math/big"
	"runtime"
	"go/types"
	"sort"
	"strings"
	"sync"
	"time"

	"golang.org/x/tools/go/ssa"
)

type Program struct {
	prog    *ssa.Program
	cose    *ssa.Package
	fakeTyp map[string]*types.Named
	mu      sync.Mutex
	tier    string
	opts    map[string]string
	constCache, globalCache, fieldCache, typeCache sync.Map
}

type noForkAbort struct{}

type pathEnd struct {
	kind string // "done","assume","infeasible","unsupported","violation","panic","limit"
	msg  string
}

type goPanicT struct {
	val Value
	msg string
}

type Nondet struct {
	Prefer []*Term // soft constraints for counterexample models (natural values that a native replay can reach)
	Name string
	Kind string // int64,uint64,bool,byte,blob,str,big,choose,node...
	Term *Term
	Arr  *Term // blob content array
	Aux  []*Term
	W    int
}

type Violation struct {
	Harness string
	Label   string
	Kind    string // assert / panic / write
	Trace   []int
	Values  map[string]interface{}
	Known   []string
	PathMsg string
	Replayed bool
	ReplayOut string
	ReplayFile string
}

type PathResult struct {
	end        pathEnd
	trace      []int
	steps      int
	asserts    int
	discharged int
	inconcl    int
	reached    []string
	violations []*Violation
	funcs      map[string]bool
	stubs      map[string]bool
	degraded   bool
	knownHits  map[string]bool
	sample     string
	unwind     int
}

type Engine struct {
	*Worker
	h        *HarnessRun
	pc       []*Term
	pcSet    map[int]bool
	prefix   []int
	pos      int
	trace    []int
	siblings [][]int

	globals   map[*ssa.Global]*Cell
	nextObj   int
	epoch     int
	frozen    int
	preWrites int
	preWriteLog []string
	preWriteIDs []int
	globalWrites int
	curInstr  ssa.Instruction
	depth     int
	steps     int
	nondets   []*Nondet
	nameCount map[string]int
	res       *PathResult
	known     map[string]*Term // known-finding id -> condition (accumulated OR)
	primLog   []*PrimCall
	signedLog []*PrimCall
	mapOrderNondet bool
	mapOrderMode int
	mapOrderPrev int
	pooled map[*Cell]bool
	envFailures int
	optsChecked map[*StructV]bool
	poolStore map[*Cell][]Iface
	mapOrderDrawn bool
	inputObjs map[int]bool
	encOpts, decOpts map[string]*StructV
	nodeByName map[string]*Node
	panicFrames []*frame
	hashCount int
	noFork int
	forceOK bool
	canon []canonEntry
	errLog []string
	nodeCells map[*Node]*Cell
	asn1Blobs map[int]asn1Sig
	noKnown   bool
}

type Worker struct {
	*Program
	id       int
	tt       *TermTable
	solver   *Solver
	paths    int
	bmemo    map[int]ival
	varBound map[int]ival
}

type HarnessRun struct {
	name     string
	fn       *ssa.Function
	queue    [][]int
	mu       sync.Mutex
	cond     *sync.Cond
	active   int
	results  []*PathResult
	maxPaths int
	nPaths   int
	stop     bool
	stopWhy  string
	nViol    int
	excludeKnown bool
}

func (e *Engine) endPath(kind, msg string) {
	panic(pathEnd{kind, msg})
}

func (e *Engine) unsupported(msg string) {
	where := ""
	if e.curInstr != nil {
		where = fmt.Sprintf(" [%s @ %s]", e.curInstr.Parent(), e.prog.Fset.Position(e.curInstr.Pos()))
	}
	panic(pathEnd{"unsupported", msg + where})
}

func (e *Engine) goPanic(msg string) {
	panic(goPanicT{msg: msg})
}

func (e *Engine) addPC(c *Term) {
	if c.isTrue() {
		return
	}
	e.pc = append(e.pc, c)
	e.pcSet[c.id] = true
	if c.op == "and" {
		for _, a := range c.args {
			e.pcSet[a.id] = true
		}
	}
}

func (e *Engine) check(extra ...*Term) string {
	r, _ := e.solver.CheckInc(e.pc, extra, nil)
	if r == rUnknown {
		e.res.degraded = true
	}
	return r
}

// branch decides a symbolic condition, forking the path if both outcomes are feasible.
func (e *Engine) branch(cond *Term) bool {
	if cond.w != 0 {
		panic("branch on non-bool")
	}
	if cond.isTrue() {
		return true
	}
	if cond.isFalse() {
		return false
	}
	if e.pcSet[cond.id] {
		return true
	}
	cond = e.cancel(cond)
	if cond.isTrue() {
		return true
	}
	if cond.isFalse() {
		return false
	}
	if e.pcSet[cond.id] {
		return true
	}
	ncond := e.tt.Not(cond)
	if e.pcSet[ncond.id] {
		return false
	}
	if v, ok := e.decide(cond); ok {
		return v
	}
	if e.noFork > 0 {
		// inside a best-effort comparison: only forced outcomes are allowed
		if e.mustBe(cond) {
			return true
		}
		if e.mustBe(ncond) {
			return false
		}
		panic(noForkAbort{})
	}
	if e.pos < len(e.prefix) {
		c := e.prefix[e.pos]
		e.pos++
		e.trace = append(e.trace, c)
		if c == 0 {
			e.addPC(cond)
			return true
		}
		e.addPC(ncond)
		return false
	}
	e.pos++
	if forkProfile {
		e.noteQuery(cond)
	}
	rT := e.check(cond)
	if rT == rUnsat {
		e.trace = append(e.trace, 1)
		e.addPC(ncond)
		return false
	}
	rF := e.check(ncond)
	if rF == rUnsat {
		e.trace = append(e.trace, 0)
		e.addPC(cond)
		return true
	}
	sib := append(append([]int{}, e.trace...), 1)
	e.siblings = append(e.siblings, sib)
	e.trace = append(e.trace, 0)
	e.addPC(cond)
	e.noteFork(cond)
	return true
}

var queryStats = map[string]int{}

func (e *Engine) noteQuery(cond *Term) {
	where := "?"
	if e.curInstr != nil {
		where = fmt.Sprintf("%s @ %s", e.curInstr.Parent(), e.prog.Fset.Position(e.curInstr.Pos()))
	}
	pc := make([]uintptr, 6)
	n := runtime.Callers(3, pc)
	fr := runtime.CallersFrames(pc[:n])
	var eng []string
	for {
		f, more := fr.Next()
		eng = append(eng, strings.TrimPrefix(f.Function, "main.(*Engine)."))
		if !more || len(eng) >= 3 {
			break
		}
	}
	key := where + " <" + strings.Join(eng, "<") + ">"
	forkMu.Lock()
	queryStats[key]++
	forkMu.Unlock()
}

var forkStats = map[string]int{}
var forkMu sync.Mutex
var forkProfile = false

func (e *Engine) noteFork(cond *Term) {
	if !forkProfile {
		return
	}
	where := "?"
	if e.curInstr != nil {
		where = fmt.Sprintf("%s @ %s", e.curInstr.Parent(), e.prog.Fset.Position(e.curInstr.Pos()))
	}
	// engine call site
	pc := make([]uintptr, 6)
	n := runtime.Callers(3, pc)
	fr := runtime.CallersFrames(pc[:n])
	var eng []string
	for {
		f, more := fr.Next()
		eng = append(eng, strings.TrimPrefix(f.Function, "main.(*Engine)."))
		if !more || len(eng) >= 3 {
			break
		}
	}
	key := where + " <" + strings.Join(eng, "<") + "> " + cond.str(4)
	if len(key) > 300 {
		key = key[:300]
	}
	forkMu.Lock()
	forkStats[key]++
	forkMu.Unlock()
}

// choose forks n ways unconditionally (shape choices).
func (e *Engine) choose(n int) int {
	if n <= 1 {
		return 0
	}
	if e.pos < len(e.prefix) {
		c := e.prefix[e.pos]
		e.pos++
		e.trace = append(e.trace, c)
		return c
	}
	e.pos++
	for i := 1; i < n; i++ {
		sib := append(append([]int{}, e.trace...), i)
		e.siblings = append(e.siblings, sib)
	}
	e.trace = append(e.trace, 0)
	return 0
}

func (e *Engine) assume(c *Term) {
	if c.isTrue() {
		return
	}
	if c.isFalse() {
		e.endPath("assume", "")
	}
	if e.pos < len(e.prefix) {
		// inside the replayed prefix the assumption was already found feasible
		e.addPC(c)
		return
	}
	if e.check(c) == rUnsat {
		e.endPath("assume", "")
	}
	e.addPC(c)
}

// concretize returns the value of t if it is unique under pc; otherwise forks
// over up to maxForks further values.
func (e *Engine) concretize(t *Term, maxForks int) (uint64, bool) {
	if t.isConst() {
		return t.u64(), true
	}
	for i := 0; i <= maxForks; i++ {
		var v uint64
		if e.pos < len(e.prefix) {
			// candidate values are part of the decision vector (models are not reproducible)
			v = uint64(e.prefix[e.pos])
			e.pos++
			e.trace = append(e.trace, int(v))
		} else {
			r, vals := e.solver.CheckInc(e.pc, nil, []*Term{t})
			if r != rSat || vals == nil || vals[0] == nil {
				if r == rUnknown {
					e.res.degraded = true
				}
				return 0, false
			}
			v = vals[0].Uint64()
			e.pos++
			e.trace = append(e.trace, int(v))
		}
		if e.branch(e.tt.Eq(t, e.tt.BVu(v, t.w))) {
			return v, true
		}
	}
	return 0, false
}

// uniqueValue returns the value of t if pc determines it uniquely (never forks).
func (e *Engine) uniqueValue(t *Term) (uint64, bool) {
	if t.isConst() {
		return t.u64(), true
	}
	var v uint64
	if e.pos < len(e.prefix) {
		v = uint64(e.prefix[e.pos])
		e.pos++
		e.trace = append(e.trace, int(v))
	} else {
		r, vals := e.solver.CheckInc(e.pc, nil, []*Term{t})
		if r == rSat && vals != nil && vals[0] != nil {
			v = vals[0].Uint64()
		}
		e.pos++
		e.trace = append(e.trace, int(v))
	}
	c := e.tt.BVu(v, t.w)
	if e.mustBe(e.tt.Eq(t, c)) {
		e.addPC(e.tt.Eq(t, c))
		return v, true
	}
	return 0, false
}

// concretizeAmong forks over the feasible candidates.
func (e *Engine) concretizeAmong(t *Term, cands []uint64) (uint64, bool) {
	if t.isConst() {
		return t.u64(), true
	}
	for _, c := range cands {
		if e.branch(e.tt.Eq(t, e.tt.BVu(c, t.w))) {
			return c, true
		}
	}
	return 0, false
}

// mustBe reports whether cond is valid under the path condition (no forking).
func (e *Engine) mustBe(cond *Term) bool {
	if cond.isTrue() {
		return true
	}
	if cond.isFalse() {
		return false
	}
	// the verdict is part of the decision vector: a solver timeout must not change the shape of a re-executed path
	if e.pos < len(e.prefix) {
		v := e.prefix[e.pos]
		e.pos++
		e.trace = append(e.trace, v)
		return v == 1
	}
	r := e.check(e.tt.Not(cond)) == rUnsat
	e.pos++
	if r {
		e.trace = append(e.trace, 1)
	} else {
		e.trace = append(e.trace, 0)
	}
	return r
}

// ---- exploration driver ------------------------------------------------------

func (p *Program) runHarness(fn *ssa.Function, nWorkers int, maxPaths int, timeoutMs int, excludeKnown bool, budget time.Duration) *HarnessRun {
	h := &HarnessRun{name: fn.Name(), fn: fn, maxPaths: maxPaths, excludeKnown: excludeKnown}
	deadline := time.Now().Add(budget)
	h.cond = sync.NewCond(&h.mu)
	h.queue = [][]int{{}}
	var wg sync.WaitGroup
	for i := 0; i < nWorkers; i++ {
		wg.Add(1)
		go func(id int) {
			defer wg.Done()
			w := &Worker{Program: p, id: id, bmemo: map[int]ival{}, varBound: map[int]ival{}}
			w.tt = newTermTable()
			w.solver = newSolver(w.tt, "z3", timeoutMs)
			defer func() { w.solver.Close() }()
			for {
				h.mu.Lock()
				for len(h.queue) == 0 && h.active > 0 && !h.stop {
					h.cond.Wait()
				}
				if h.stop || (len(h.queue) == 0 && h.active == 0) {
					h.mu.Unlock()
					h.cond.Broadcast()
					return
				}
				prefix := h.queue[len(h.queue)-1]
				h.queue = h.queue[:len(h.queue)-1]
				h.active++
				h.nPaths++
				if h.maxPaths > 0 && h.nPaths > h.maxPaths {
					h.stop = true
					h.stopWhy = "path cap"
				}
				if time.Now().After(deadline) {
					h.stop = true
					h.stopWhy = "time budget"
				}
				h.mu.Unlock()

				if w.paths > 0 && w.paths%400 == 0 {
					// bound memory: fresh solver and term table
					st := w.solver
					w.tt = newTermTable()
					w.bmemo, w.varBound = map[int]ival{}, map[int]ival{}
					ns := newSolver(w.tt, "z3", timeoutMs)
					ns.queries, ns.cacheHits, ns.solverTime, ns.errors, ns.unknowns = st.queries, st.cacheHits, st.solverTime, st.errors, st.unknowns
					st.Close()
					w.solver = ns
				}
				w.paths++
				res, sibs := w.runPath(h, prefix)

				h.mu.Lock()
				h.results = append(h.results, res)
				h.queue = append(h.queue, sibs...)
				h.nViol += len(res.violations)
				if h.nViol >= 300 && !h.stop {
					// plenty of counterexample candidates to replay: no point in exploring further
					h.stop = true
					h.stopWhy = "enough counterexamples"
				}
				h.active--
				h.mu.Unlock()
				h.cond.Broadcast()
			}
		}(i)
	}
	wg.Wait()
	return h
}

var globalStats struct {
	mu         sync.Mutex
	queries    int
	cacheHits  int
	solverTime time.Duration
	errors     int
	unknowns   int
}

func (w *Worker) runPath(h *HarnessRun, prefix []int) (res *PathResult, sibs [][]int) {
	e := &Engine{Worker: w, h: h, prefix: prefix, pcSet: map[int]bool{}, globals: map[*ssa.Global]*Cell{},
		nameCount: map[string]int{}, known: map[string]*Term{}, inputObjs: map[int]bool{},
		encOpts: map[string]*StructV{}, decOpts: map[string]*StructV{}, nodeByName: map[string]*Node{}}
	e.res = &PathResult{funcs: map[string]bool{}, stubs: map[string]bool{}, knownHits: map[string]bool{}}
	e.noKnown = h.excludeKnown
	q0, t0, c0, e0, u0 := w.solver.queries, w.solver.solverTime, w.solver.cacheHits, w.solver.errors, w.solver.unknowns
	defer func() {
		if r := recover(); r != nil {
			switch x := r.(type) {
			case pathEnd:
				e.res.end = x
			case goPanicT:
				// uncaught Go panic in the harness = violation candidate
				e.res.end = pathEnd{"panic", x.msg}
				e.reportViolation("panic: "+x.msg, "panic", nil)
			default:
				panic(r)
			}
		}
		e.res.trace = e.trace
		e.res.steps = e.steps
		res = e.res
		sibs = e.siblings
		globalStats.mu.Lock()
		globalStats.queries += w.solver.queries - q0
		globalStats.solverTime += w.solver.solverTime - t0
		globalStats.cacheHits += w.solver.cacheHits - c0
		globalStats.errors += w.solver.errors - e0
		globalStats.unknowns += w.solver.unknowns - u0
		globalStats.mu.Unlock()
	}()
	e.runInit()
	e.epoch = 1
	e.callFunction(h.fn, nil)
	e.res.end = pathEnd{"done", ""}
	return
}

func (e *Engine) runInit() {
	init := e.cose.Func("init")
	e.callFunction(init, nil)
}

// reportViolation: cond is the violated condition's negation already known sat
// together with pc (extra constraints to add for the model), or nil.
func (e *Engine) reportViolation(label, kind string, extra []*Term) {
	v := &Violation{Harness: e.h.name, Label: label, Kind: kind, Trace: append([]int{}, e.trace...)}
	v.Values = e.extractModel(extra)
	if e.curInstr != nil {
		v.PathMsg = fmt.Sprintf("%s @ %s", e.curInstr.Parent(), e.prog.Fset.Position(e.curInstr.Pos()))
	}
	if len(e.errLog) > 0 {
		v.PathMsg += " | recent errors: " + strings.Join(e.errLog, " ; ")
	}
	e.res.violations = append(e.res.violations, v)
}

// extractModel evaluates all nondets of the path under pc ∧ extra, preferring small blobs.
func (e *Engine) extractModel(extra []*Term) map[string]interface{} {
	var terms []*Term
	type slot struct {
		nd   *Nondet
		idx  int
		cnt  int
	}
	var slots []slot
	var small []*Term
	for _, nd := range e.nondets {
		s := slot{nd: nd, idx: len(terms)}
		switch nd.Kind {
		case "blob":
			terms = append(terms, nd.Term)
			for i := 0; i < 72; i++ {
				terms = append(terms, e.tt.Select(nd.Arr, e.c64(uint64(i))))
			}
			small = append(small, e.tt.Cmp("bvule", nd.Term, e.c64(70000)))
		default:
			if nd.Term != nil {
				terms = append(terms, nd.Term)
			}
			terms = append(terms, nd.Aux...)
		}
		s.cnt = len(terms) - s.idx
		slots = append(slots, s)
	}
	var prefer []*Term
	for _, nd := range e.nondets {
		prefer = append(prefer, nd.Prefer...)
	}
	r, vals := rUnknown, []*big.Int(nil)
	if len(prefer) > 0 {
		r, vals = e.solver.CheckInc(e.pc, append(append(append([]*Term{}, extra...), small...), prefer...), terms)
	}
	if r != rSat {
		r, vals = e.solver.CheckInc(e.pc, append(append([]*Term{}, extra...), small...), terms)
	}
	if r != rSat {
		r, vals = e.solver.CheckInc(e.pc, extra, terms)
	}
	out := map[string]interface{}{}
	if r != rSat || vals == nil {
		out["_model"] = "unavailable:" + r
		return out
	}
	for _, s := range slots {
		vs := vals[s.idx : s.idx+s.cnt]
		switch s.nd.Kind {
		case "blob":
			n := vs[0].Uint64()
			var b []byte
			for i := 0; i < 72 && uint64(i) < n; i++ {
				if vs[1+i] != nil {
					b = append(b, byte(vs[1+i].Uint64()))
				} else {
					b = append(b, 0)
				}
			}
			out[s.nd.Name] = map[string]interface{}{"len": n, "head": fmt.Sprintf("%x", b)}
		case "bool":
			out[s.nd.Name] = vs[0].Sign() != 0
		case "choose":
			out[s.nd.Name] = s.nd.W
		case "int64":
			out[s.nd.Name] = fmt.Sprintf("%d", toSigned(vs[0], 64))
		case "big":
			out[s.nd.Name] = "0x" + vs[0].Text(16)
		case "str":
			// Aux = bytes; W = len
			var b []byte
			for _, x := range vs {
				b = append(b, byte(x.Uint64()))
			}
			out[s.nd.Name] = fmt.Sprintf("%x", b)
		default:
			if len(vs) > 0 && vs[0] != nil {
				out[s.nd.Name] = fmt.Sprintf("%d", vs[0])
			}
		}
	}
	return out
}

func (e *Engine) freshName(name string) string {
	c := e.nameCount[name]
	e.nameCount[name] = c + 1
	if c == 0 {
		return name
	}
	return fmt.Sprintf("%s#%d", name, c)
}

func sortedKeys(m map[string]bool) []string {
	var ks []string
	for k := range m {
		ks = append(ks, k)
	}
	sort.Strings(ks)
	return ks
}

func traceStr(t []int) string {
	var sb strings.Builder
	for _, x := range t {
		fmt.Fprintf(&sb, "%d", x)
	}
	return sb.String()
}
