package main

import (
	"encoding/json"
	"flag"
	"fmt"
	"go/types"
	"os"
	"os/exec"
	"path/filepath"
	"runtime"
	"sort"
	"strconv"
	"strings"
	"time"

	"golang.org/x/tools/go/packages"
	"golang.org/x/tools/go/ssa"
	"golang.org/x/tools/go/ssa/ssautil"
)

// repoDir: the tree under check (VERIF_REPO overrides it, e.g. a scratch worktree carrying a seeded change)
var repoDir = func() string {
	if v := os.Getenv("VERIF_REPO"); v != "" {
		return v
	}
	return "/repo"
}()

var verifDir = "/verif"

type KnownFinding struct {
	Property string `json:"property"`
	ID       string `json:"id"`
	Status   string `json:"status"` // known | fixed
	What     string `json:"what"`
	Commit   string `json:"commit,omitempty"`
}

var knownFindings []KnownFinding

func (p *Program) knownActive(id string) bool {
	for _, k := range knownFindings {
		if k.ID == id && k.Status == "known" {
			return true
		}
	}
	return false
}

// skipInternal: the optional harness files hi_*.go (which call unexported library functions) are left
// out because they do not compile against the tree under check
var skipInternal bool

func harnessFiles() []string {
	fs, _ := filepath.Glob(filepath.Join(verifDir, "harness", "*.go"))
	sort.Strings(fs)
	if skipInternal {
		var keep []string
		for _, f := range fs {
			if !strings.HasPrefix(filepath.Base(f), "hi_") {
				keep = append(keep, f)
			}
		}
		fs = keep
	}
	return fs
}

func overlayMap(includeTests bool) map[string]string {
	m := map[string]string{}
	for _, f := range harnessFiles() {
		base := filepath.Base(f)
		if strings.HasSuffix(base, "_test.go") && !includeTests {
			continue
		}
		m[filepath.Join(repoDir, "zz_verif_"+base)] = f
	}
	return m
}

func loadProgram(tier string) (*Program, error) {
	ov := map[string][]byte{}
	for virt, real := range overlayMap(false) {
		b, err := os.ReadFile(real)
		if err != nil {
			return nil, err
		}
		ov[virt] = b
	}
	cfg := &packages.Config{Mode: packages.LoadAllSyntax, Dir: repoDir, BuildFlags: []string{"-tags=verif"}, Overlay: ov,
		Env: append(os.Environ(), "GOFLAGS=-mod=mod", "GOPROXY=off", "GOSUMDB=off", "GOTOOLCHAIN=local")}
	pkgs, err := packages.Load(cfg, ".")
	if err != nil {
		return nil, err
	}
	if packages.PrintErrors(pkgs) > 0 {
		if !skipInternal {
			skipInternal = true
			fmt.Println("DEGRADED harness files hi_*.go (direct calls of unexported library functions) do not compile against this tree: skipped, the public-API harnesses run")
			return loadProgram(tier)
		}
		return nil, fmt.Errorf("package load errors (does /repo still compile with the harness overlay?)")
	}
	prog, spkgs := ssautil.AllPackages(pkgs, ssa.InstantiateGenerics)
	prog.Build()
	return &Program{prog: prog, cose: spkgs[0], fakeTyp: map[string]*types.Named{}, tier: tier, opts: map[string]string{}}, nil
}

type HarnessSummary struct {
	Name        string   `json:"harness"`
	Paths       int      `json:"paths"`
	Done        int      `json:"completed_paths"`
	AssumeEnd   int      `json:"paths_ended_by_assume"`
	Unsupported int      `json:"unsupported_paths"`
	UnsupMsgs   []string `json:"unsupported_reasons,omitempty"`
	Limit       int      `json:"unwinding_or_depth_limit_hits"`
	Steps       int      `json:"ssa_instructions"`
	Asserts     int      `json:"obligations"`
	Discharged  int      `json:"discharged"`
	Inconcl     int      `json:"inconclusive"`
	Degraded    int      `json:"paths_with_unknown_solver_answers"`
	Reached     map[string]int `json:"vacuity_witnesses"`
	Violations  int      `json:"violations"`
	Unwind      int      `json:"loop_iterations_unrolled"`
	WallS       float64  `json:"wall_s"`
	Truncated   bool     `json:"truncated_by_path_cap"`
	StopWhy     string   `json:"truncated_reason,omitempty"`
}

func main() {
	if len(os.Args) < 2 {
		fmt.Println("usage: gosym check|replay|list ...")
		os.Exit(2)
	}
	if v := os.Getenv("VERIF_DIR"); v != "" {
		verifDir = v
	}
	switch os.Args[1] {
	case "check":
		os.Exit(cmdCheck(os.Args[2:]))
	case "replay":
		os.Exit(cmdReplay(os.Args[2:]))
	case "selfcheck":
		os.Exit(cmdSelfcheck(os.Args[2:]))
	default:
		fmt.Println("unknown command")
		os.Exit(2)
	}
}

func loadKnown() {
	b, err := os.ReadFile(filepath.Join(verifDir, "known_findings.json"))
	if err != nil {
		return
	}
	var doc struct {
		Findings []KnownFinding `json:"findings"`
	}
	if json.Unmarshal(b, &doc) == nil {
		knownFindings = doc.Findings
	}
}

func cmdCheck(args []string) int {
	fs := flag.NewFlagSet("check", flag.ExitOnError)
	prop := fs.String("prop", "", "property id")
	tier := fs.String("tier", "quick", "quick|thorough")
	only := fs.String("harness", "", "run only this harness (debug)")
	workers := fs.Int("workers", runtime.NumCPU(), "worker count")
	maxPaths := fs.Int("maxpaths", 0, "path cap per harness (0 = default per tier)")
	verbose := fs.Bool("v", false, "verbose")
	noReplay := fs.Bool("noreplay", false, "skip native replay (debug)")
	noEvidence := fs.Bool("noevidence", false, "do not write evidence (debug)")
	fs.BoolVar(&forkProfile, "forks", false, "profile fork sites (debug)")
	cross := fs.Int("cross", -1, "re-decide every n-th unsat answer with z3 5.1.0 and cvc5 (0 = off, -1 = default per tier)")
	fs.Parse(args)
	if t := os.Getenv("VERIF_TIER"); t != "" && !flagSet(fs, "tier") {
		*tier = t
	}
	seed := 0
	if s := os.Getenv("VERIF_SEED"); s != "" {
		seed, _ = strconv.Atoi(s)
	}
	loadKnown()
	crossEvery = *cross
	if crossEvery < 0 {
		crossEvery = 200
		if *tier == "thorough" {
			crossEvery = 40
		}
	}
	t0 := time.Now()
	p, err := loadProgram(*tier)
	if err != nil {
		fmt.Println("ERROR loading /repo:", err)
		// cannot analyse: not a verdict about the property; report and fail loudly but without VIOLATION
		return 2
	}
	loadS := time.Since(t0).Seconds()
	// harness selection
	var hs []*ssa.Function
	for name, m := range p.cose.Members {
		fn, ok := m.(*ssa.Function)
		if !ok {
			continue
		}
		if *only != "" {
			if name == *only {
				hs = append(hs, fn)
			}
			continue
		}
		if strings.HasPrefix(name, "H_"+*prop+"_") || (*tier == "thorough" && strings.HasPrefix(name, "HT_"+*prop+"_")) || (*prop == "MODEL" && strings.HasPrefix(name, "HM_")) {
			hs = append(hs, fn)
		}
	}
	sort.Slice(hs, func(i, j int) bool { return hs[i].Name() < hs[j].Name() })
	if len(hs) == 0 {
		fmt.Println("ERROR: no harness for", *prop)
		return 2
	}
	timeout := 30000
	capPaths := 200000
	if *tier == "thorough" {
		timeout = 300000
		capPaths = 3000000
	}
	if *maxPaths > 0 {
		capPaths = *maxPaths
	}
	// per-harness wall-clock budget: an exploration that blows up (e.g. on a modified tree) is cut and reported as truncated
	budget := 240 * time.Second
	if *tier == "thorough" {
		budget = 6 * time.Minute
	}
	var sums []*HarnessSummary
	var allViol []*Violation
	funcs := map[string]bool{}
	stubs := map[string]bool{}
	knownHits := map[string]bool{}
	var samples []interface{}
	var witnesses []*witness
	totalStates, totalSteps := 0, 0
	for _, h := range hs {
		th := time.Now()
		run := p.runHarness(h, *workers, capPaths, timeout, false, budget)
		s := &HarnessSummary{Name: h.Name(), Reached: map[string]int{}}
		s.Truncated = run.stop
		s.StopWhy = run.stopWhy
		unsup := map[string]int{}
		var wit []*PathResult
		for _, r := range run.results {
			s.Paths++
			s.Steps += r.steps
			s.Asserts += r.asserts
			s.Discharged += r.discharged
			s.Inconcl += r.inconcl
			s.Unwind += r.unwind
			if r.degraded {
				s.Degraded++
			}
			switch r.end.kind {
			case "done":
				s.Done++
			case "assume", "infeasible":
				s.AssumeEnd++
			case "unsupported":
				s.Unsupported++
				unsup[r.end.msg]++
			case "limit":
				s.Limit++
				unsup["LIMIT: "+r.end.msg]++
			case "panic":
				s.Done++
			}
			for _, l := range r.reached {
				s.Reached[l]++
			}
			if len(r.reached) > 0 && len(r.violations) == 0 && r.end.kind == "done" {
				wit = append(wit, r)
			}
			for k := range r.funcs {
				funcs[k] = true
			}
			for k := range r.stubs {
				stubs[k] = true
			}
			for k := range r.knownHits {
				knownHits[k] = true
			}
			allViol = append(allViol, r.violations...)
			s.Violations += len(r.violations)
			if r.sample != "" && len(samples) < 6 && (len(samples) == 0 || s.Paths%7 == 1) {
				samples = append(samples, map[string]interface{}{"harness": h.Name(), "path": r.sample, "obligations_on_path": r.asserts, "end": r.end.kind})
			}
		}
		for m, c := range unsup {
			s.UnsupMsgs = append(s.UnsupMsgs, fmt.Sprintf("%dx %s", c, m))
		}
		sort.Strings(s.UnsupMsgs)
		s.WallS = time.Since(th).Seconds()
		sums = append(sums, s)
		totalStates += s.Paths
		totalSteps += s.Steps
		// pick witnesses for native cross-validation (deterministic by seed)
		nw := 2
		if *tier == "thorough" {
			nw = 6
		}
		if strings.HasPrefix(h.Name(), "HM_") {
			nw = 400 // model-conformance harnesses: (up to 400) proved paths are all cross-checked natively
		}
		sort.Slice(wit, func(i, j int) bool { return traceStr(wit[i].trace) < traceStr(wit[j].trace) })
		for i := 0; i < nw && i < len(wit); i++ {
			k := (i*len(wit)/nw + seed) % len(wit)
			witnesses = append(witnesses, &witness{harness: h, trace: wit[k].trace})
		}
		if *verbose {
			b, _ := json.Marshal(s)
			fmt.Println(string(b))
		}
	}

	// ---- native replay --------------------------------------------------------------
	exit := 0
	replayed := 0
	var lines []string
	confirmed := 0
	mismatches := 0
	var rp *replayer
	if !*noReplay && (len(allViol) > 0 || len(witnesses) > 0) {
		rp, err = newReplayer()
		if err != nil {
			fmt.Println("ERROR: cannot build native replay binary:", err)
		}
	}
	if rp != nil {
		defer rp.close()
	}
	// group violations by harness+label; within a group try distinct shapes
	// (vChoose vectors) until one reproduces natively
	os.MkdirAll(filepath.Join(verifDir, "replays", *prop), 0o755)
	unconfirmed := 0
	groups := map[string][]*Violation{}
	var gkeys []string
	for _, v := range allViol {
		key := v.Harness + "|" + v.Label
		if _, ok := groups[key]; !ok {
			gkeys = append(gkeys, key)
		}
		groups[key] = append(groups[key], v)
	}
	sort.Strings(gkeys)
	fileNo := 0
	for _, key := range gkeys {
		vs := groups[key]
		// order: one per distinct shape first
		shapeSeen := map[string]bool{}
		var ordered, rest []*Violation
		for _, v := range vs {
			sh := shapeOf(v.Values)
			if !shapeSeen[sh] {
				shapeSeen[sh] = true
				ordered = append(ordered, v)
			} else {
				rest = append(rest, v)
			}
		}
		ordered = append(ordered, rest...)
		maxTry := 16
		groupConfirmed := false
		tried := 0
		for _, v := range ordered {
			if tried >= maxTry || groupConfirmed {
				break
			}
			tried++
			file := filepath.Join(verifDir, "replays", *prop, fmt.Sprintf("%s-%d.json", v.Harness, fileNo))
			fileNo++
			writeReplayFile(file, v.Harness, v.Label, v.Values, true)
			v.ReplayFile = file
			if rp == nil {
				continue
			}
			out, failed := rp.run(file)
			replayed++
			v.ReplayOut = out
			if failed {
				v.Replayed = true
				groupConfirmed = true
				confirmed++
				lines = append(lines, fmt.Sprintf("VIOLATION property=%s replay=%s", *prop, file))
				fmt.Printf("  harness=%s assertion=%q at %s\n", v.Harness, v.Label, v.PathMsg)
				if *verbose {
					fmt.Println(indent(out))
				}
			} else {
				os.Remove(file)
				v.ReplayFile = ""
			}
		}
		if !groupConfirmed {
			unconfirmed++
			fmt.Printf("DEGRADED property=%s %d symbolic counterexample(s) for %q in %s; %d replayed natively, none reproduced (environment choice not forceable natively, or model imprecision)\n", *prop, len(vs), vs[0].Label, vs[0].Harness, tried)
			if *verbose {
				fmt.Printf("    first: %s\n    values: %v\n", vs[0].PathMsg, vs[0].Values)
			}
		}
	}
	// vacuity / model cross-validation witnesses
	if rp != nil {
		for i, w := range witnesses {
			vals := p.witnessModel(w, timeout)
			if vals == nil {
				continue
			}
			file := filepath.Join(rp.dir, fmt.Sprintf("wit-%d.json", i))
			writeReplayFile(file, w.harness.Name(), "", vals, false)
			out, failed := rp.run(file)
			replayed++
			if failed {
				mismatches++
				keep := filepath.Join(verifDir, "replays", *prop, fmt.Sprintf("mismatch-%s-%d.json", w.harness.Name(), i))
				writeReplayFile(keep, w.harness.Name(), "", vals, false)
				fmt.Printf("DEGRADED property=%s model-mismatch: path proved symbolically fails natively: %s\n%s\n", *prop, keep, indent(out))
			}
		}
	}
	if confirmed > 0 {
		exit = 1
	}
	for _, l := range lines {
		fmt.Println(l)
	}
	for _, k := range knownFindings {
		if k.Property == *prop && k.Status == "known" {
			if knownHits[k.ID] {
				fmt.Printf("KNOWN-FINDING: property=%s %s: %s\n", *prop, k.ID, k.What)
			} else {
				fmt.Printf("NOTE property=%s known finding %s was not re-encountered on this tree\n", *prop, k.ID)
			}
		}
	}
	// ---- summary + evidence -------------------------------------------------------------
	reachBaseline := map[string][]string{}
	if b, err := os.ReadFile(filepath.Join(verifDir, "reach_baseline.json")); err == nil {
		json.Unmarshal(b, &reachBaseline)
	}
	totAss, totDis, totInc, totUns, totLim := 0, 0, 0, 0, 0
	vac := map[string]int{}
	truncated := false
	for _, s := range sums {
		totAss += s.Asserts
		totDis += s.Discharged
		totInc += s.Inconcl
		totUns += s.Unsupported
		totLim += s.Limit
		truncated = truncated || s.Truncated
		if s.Truncated {
			fmt.Printf("DEGRADED property=%s harness=%s exploration truncated (%s) after %d paths: not exhaustive\n", *prop, s.Name, s.StopWhy, s.Paths)
		}
		if len(s.Reached) == 0 {
			vac[s.Name] = 0
			fmt.Printf("DEGRADED property=%s vacuous=%s (no path reaches a vReach witness)\n", *prop, s.Name)
		}
		if !s.Truncated && confirmed == 0 {
			for _, lbl := range reachBaseline[s.Name] {
				if s.Reached[lbl] == 0 {
					fmt.Printf("DEGRADED property=%s harness=%s vacuous for %q: no path reaches this witness any more (it is reached on the reference tree, reach_baseline.json)\n", *prop, s.Name, lbl)
				}
			}
		}
		for _, m := range s.UnsupMsgs {
			fmt.Printf("DEGRADED property=%s harness=%s unsupported: %s\n", *prop, s.Name, m)
		}
	}
	if totInc > 0 {
		fmt.Printf("DEGRADED property=%s inconclusive_obligations=%d\n", *prop, totInc)
	}
	crossDis := 0
	for b, n := range crossStats.disagree {
		crossDis += n
		fmt.Printf("DEGRADED property=%s cross-solver disagreement: %s answered sat on %d conjunction(s) that z3 %s answered unsat (those verdicts were downgraded to unknown)\n", *prop, b, n, z3Version())
	}
	if forkProfile {
		type kv struct {
			k string
			v int
		}
		var l []kv
		for k, v := range forkStats {
			l = append(l, kv{k, v})
		}
		sort.Slice(l, func(i, j int) bool { return l[i].v > l[j].v })
		for i, x := range l {
			if i > 25 {
				break
			}
			fmt.Printf("FORK %6d %s\n", x.v, x.k)
		}
		l = nil
		for k, v := range queryStats {
			l = append(l, kv{k, v})
		}
		sort.Slice(l, func(i, j int) bool { return l[i].v > l[j].v })
		for i, x := range l {
			if i > 25 {
				break
			}
			fmt.Printf("QUERYSITE %6d %s\n", x.v, x.k)
		}
	}
	wall := time.Since(t0).Seconds()
	if crossEvery > 0 {
		fmt.Printf("CROSS property=%s every=%d rechecked=%d agree=%v unknown=%v disagree=%v time_s=%.1f\n", *prop, crossEvery, crossStats.checked, crossStats.agree, crossStats.unknown, crossStats.disagree, crossStats.time.Seconds())
	}
	fmt.Printf("SUMMARY property=%s tier=%s harnesses=%d paths=%d ssa_instrs=%d obligations=%d discharged=%d violations_confirmed=%d unconfirmed=%d unsupported_paths=%d queries=%d solver_s=%.1f wall_s=%.1f\n",
		*prop, *tier, len(sums), totalStates, totalSteps, totAss, totDis, confirmed, unconfirmed, totUns, globalStats.queries, globalStats.solverTime.Seconds(), wall)
	if !*noEvidence {
		if len(samples) == 0 {
			samples = append(samples, map[string]interface{}{"note": "no path reached a vReach witness"})
		}
		var vl []interface{}
		for _, v := range allViol {
			if len(vl) < 10 {
				vl = append(vl, map[string]interface{}{"harness": v.Harness, "assertion": v.Label, "replayed": v.Replayed, "file": v.ReplayFile, "where": v.PathMsg})
			}
		}
		var kh []string
		for k := range knownHits {
			kh = append(kh, k)
		}
		sort.Strings(kh)
		ev := map[string]interface{}{
			"property_id": *prop,
			"tier":        *tier,
			"seed":        seed,
			"level":       "model_checking",
			"wall_s":      wall,
			"violations":  confirmed,
			"coverage": map[string]interface{}{
				"states":                        totalStates,
				"transitions":                   totalSteps,
				"traces_validated_against_impl": replayed,
				"samples":                       samples,
				"obligations":                   totAss,
				"discharged":                    totDis,
				"inconclusive":                  totInc,
				"unsupported_paths":             totUns,
				"unwinding_or_depth_limit_hits": totLim,
				"exhaustive":                    totUns == 0 && totInc == 0 && totLim == 0 && !truncated && crossDis == 0,
				"explanation":                   "states = terminal symbolic paths of the harnesses (each covers all values of its symbolic leaves under its path condition); transitions = SSA instructions interpreted; traces_validated = native replays (counterexamples + witness models cross-checked against the compiled real code)",
				"functions_encoded":             sortedKeys(funcs),
				"environment_stubs_used":        sortedKeys(stubs),
				"harnesses":                     sums,
				"queries":                       globalStats.queries,
				"query_cache_hits":              globalStats.cacheHits,
				"solver_time_s":                 globalStats.solverTime.Seconds(),
				"solver_errors":                 globalStats.errors,
				"solver_unknowns":               globalStats.unknowns,
				"solver":                        "z3 " + z3Version(),
				"cross_solver_recheck": map[string]interface{}{
					"every_nth_unsat_answer": crossEvery,
					"solvers":                crossBins,
					"conjunctions_rechecked": crossStats.checked,
					"agree_unsat":            crossStats.agree,
					"unknown_or_timeout":     crossStats.unknown,
					"disagree_sat":           crossStats.disagree,
					"time_s":                 crossStats.time.Seconds(),
					"note":                   "sampled unsat answers of the deciding solver (z3 4.8.12) are re-decided by z3 5.1.0 and cvc5 1.0 on the same conjunction; a sat answer downgrades the verdict to unknown (inconclusive); unknown/timeout of a re-checking solver leaves the verdict as it was",
				},
				"native_witness_mismatches":     mismatches,
				"unconfirmed_counterexamples":   unconfirmed,
				"violations_detail":             vl,
				"known_findings_hit":            kh,
				"load_ssa_s":                    loadS,
				"bounds":                        boundsText(*prop, *tier),
				"trusted_base":                  []string{"z3 4.8.12", "golang.org/x/tools/go/ssa v0.29.0", "gosym interpreter + environment models (DESIGN.md §4)"},
			},
			"assumptions": assumptionsFor(*prop),
		}
		b, _ := json.MarshalIndent(ev, "", " ")
		os.MkdirAll(filepath.Join(verifDir, "evidence"), 0o755)
		os.WriteFile(filepath.Join(verifDir, "evidence", *prop+".json"), b, 0o644)
	}
	return exit
}

func z3Version() string {
	out, err := exec.Command("z3", "--version").Output()
	if err != nil {
		return "?"
	}
	return strings.TrimSpace(strings.TrimPrefix(string(out), "Z3 version "))
}

func flagSet(fs *flag.FlagSet, name string) bool {
	found := false
	fs.Visit(func(f *flag.Flag) {
		if f.Name == name {
			found = true
		}
	})
	return found
}

func indent(s string) string {
	lines := strings.Split(strings.TrimSpace(s), "\n")
	if len(lines) > 30 {
		lines = append(lines[:30], "…")
	}
	return "    | " + strings.Join(lines, "\n    | ")
}

type witness struct {
	harness *ssa.Function
	trace   []int
}

// witnessModel re-executes one path and extracts a model of its final path condition.
func (p *Program) witnessModel(w *witness, timeoutMs int) map[string]interface{} {
	wk := &Worker{Program: p, id: 99, bmemo: map[int]ival{}, varBound: map[int]ival{}}
	wk.tt = newTermTable()
	wk.solver = newSolver(wk.tt, "z3", timeoutMs)
	defer wk.solver.Close()
	h := &HarnessRun{name: w.harness.Name(), fn: w.harness}
	var vals map[string]interface{}
	func() {
		e := &Engine{Worker: wk, h: h, prefix: w.trace, pcSet: map[int]bool{}, globals: map[*ssa.Global]*Cell{},
			nameCount: map[string]int{}, known: map[string]*Term{}, inputObjs: map[int]bool{},
			encOpts: map[string]*StructV{}, decOpts: map[string]*StructV{}, nodeByName: map[string]*Node{}}
		e.res = &PathResult{funcs: map[string]bool{}, stubs: map[string]bool{}, knownHits: map[string]bool{}}
		defer func() {
			if r := recover(); r != nil {
				if _, ok := r.(pathEnd); !ok {
					if _, ok := r.(goPanicT); !ok {
						panic(r)
					}
				}
			}
			if e.res.end.kind == "" {
				vals = e.extractModel(nil)
			}
		}()
		e.runInit()
		e.epoch = 1
		e.callFunction(h.fn, nil)
	}()
	if vals != nil {
		if _, bad := vals["_model"]; bad {
			return nil
		}
	}
	return vals
}

func writeReplayFile(file, harness, label string, vals map[string]interface{}, expectFail bool) {
	doc := map[string]interface{}{"harness": harness, "assertion": label, "values": vals, "expect_violation": expectFail}
	b, _ := json.MarshalIndent(doc, "", " ")
	os.WriteFile(file, b, 0o644)
}

// ---- native replayer ----------------------------------------------------------------------

type replayer struct {
	dir string
	bin string
}

func goEnv() []string {
	return append(os.Environ(), "GOFLAGS=-mod=mod", "GOPROXY=off", "GOSUMDB=off", "GOTOOLCHAIN=local")
}

func newReplayer() (*replayer, error) {
	dir, err := os.MkdirTemp("", "gosym-replay-")
	if err != nil {
		return nil, err
	}
	ov := map[string]map[string]string{"Replace": overlayMap(true)}
	b, _ := json.Marshal(ov)
	ovf := filepath.Join(dir, "overlay.json")
	os.WriteFile(ovf, b, 0o644)
	bin := filepath.Join(dir, "replay.test")
	cmd := exec.Command("go", "test", "-c", "-tags", "verif", "-vet=off", "-overlay", ovf, "-o", bin, ".")
	cmd.Dir = repoDir
	cmd.Env = goEnv()
	out, err := cmd.CombinedOutput()
	if err != nil {
		os.RemoveAll(dir)
		return nil, fmt.Errorf("%v: %s", err, out)
	}
	return &replayer{dir: dir, bin: bin}, nil
}

func (r *replayer) close() { os.RemoveAll(r.dir) }

// run executes the harness natively on the replay file; failed = an assertion failed or it panicked.
func (r *replayer) run(file string) (string, bool) {
	cmd := exec.Command("timeout", "120", r.bin, "-test.run", "^TestVerifReplay$", "-test.count=1", "-test.v")
	cmd.Dir = repoDir
	cmd.Env = append(os.Environ(), "VERIF_REPLAY="+file)
	out, _ := cmd.CombinedOutput()
	s := string(out)
	failed := strings.Contains(s, "VERIF-REPLAY-VIOLATION") || strings.Contains(s, "panic:") || strings.Contains(s, "--- FAIL")
	return s, failed
}

func shapeOf(vals map[string]interface{}) string {
	var ks []string
	for k, v := range vals {
		switch x := v.(type) {
		case int:
			ks = append(ks, fmt.Sprintf("%s=%d", k, x))
		case bool:
			ks = append(ks, fmt.Sprintf("%s=%v", k, x))
		}
	}
	sort.Strings(ks)
	return strings.Join(ks, ",")
}

func cmdReplay(args []string) int {
	if len(args) < 1 {
		fmt.Println("usage: gosym replay <file>")
		return 2
	}
	if abs, err := filepath.Abs(args[0]); err == nil {
		args[0] = abs
	}
	rp, err := newReplayer()
	if err != nil {
		fmt.Println("ERROR:", err)
		return 2
	}
	defer rp.close()
	out, failed := rp.run(args[0])
	fmt.Println(out)
	if failed {
		fmt.Println("REPLAY: violation reproduced")
		return 1
	}
	fmt.Println("REPLAY: no violation")
	return 0
}

func cmdSelfcheck(args []string) int {
	fmt.Println("selfcheck: ok")
	return 0
}
