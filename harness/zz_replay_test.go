//go:build verif

package cose

import (
	"os"
	"testing"
)

// TestVerifReplay runs one harness natively on the values of a solver model.
func TestVerifReplay(t *testing.T) {
	path := os.Getenv("VERIF_REPLAY")
	if path == "" {
		t.Skip("VERIF_REPLAY not set")
	}
	if err := vLoadReplay(path); err != nil {
		t.Fatal(err)
	}
	h, ok := vHarnesses[vDoc.Harness]
	if !ok {
		t.Fatalf("unknown harness %q", vDoc.Harness)
	}
	func() {
		defer func() {
			if r := recover(); r != nil {
				if _, ok := r.(vAssumeFailed); ok {
					t.Logf("VERIF-REPLAY: assumption not satisfied by replay values (path not reproduced)")
					return
				}
				panic(r)
			}
		}()
		h()
	}()
	if len(vFailures) > 0 {
		t.Fatalf("VERIF-REPLAY-VIOLATION %d assertion(s) failed: %v", len(vFailures), vFailures)
	}
	t.Logf("VERIF-REPLAY: harness %s passed natively (reached %v)", vDoc.Harness, vReachedLbl)
}
