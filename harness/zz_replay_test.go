//go:build verif

package cose

import (
	"os"
	"testing"
	"time"
)

// TestVerifReplay runs one harness natively on the values of a solver model.
func TestVerifReplay(t *testing.T) {
	path := os.Getenv("VERIF_REPLAY")
	if path == "" {
		t.Skip("VERIF_REPLAY not set")
	}
	// harnesses that quantify over map iteration order are repeated: natively the order is
	// drawn by the runtime, so one run samples one schedule
	start := time.Now()
	for round := 0; round < 400 && time.Since(start) < 15*time.Second; round++ {
		if err := vLoadReplay(path); err != nil {
			t.Fatal(err)
		}
		vUsesMapOrder = false
		vReachedLbl = nil
		h, ok := vHarnesses[vDoc.Harness]
		if !ok {
			t.Fatalf("unknown harness %q", vDoc.Harness)
		}
		assumeFailed := false
		func() {
			defer func() {
				if r := recover(); r != nil {
					if _, ok := r.(vAssumeFailed); ok {
						assumeFailed = true
						return
					}
					panic(r)
				}
			}()
			h()
		}()
		if len(vFailures) > 0 {
			t.Fatalf("VERIF-REPLAY-VIOLATION %d assertion(s) failed: %v", len(vFailures), vFailures)
		}
		if assumeFailed && !vUsesMapOrder {
			t.Logf("VERIF-REPLAY: assumption not satisfied by replay values (path not reproduced)")
			return
		}
		if !vUsesMapOrder {
			break
		}
	}
	t.Logf("VERIF-REPLAY: harness %s passed natively (reached %v)", vDoc.Harness, vReachedLbl)
}
