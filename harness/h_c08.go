//go:build verif

package cose

func init() {
	vRegister("H_C08_header_maps", H_C08_header_maps)
	vRegister("H_C08_nested_values", H_C08_nested_values)
	vRegister("H_C08_messages", H_C08_messages)
	vRegister("H_C08_helpers", H_C08_helpers)
	vRegister("H_C08_raw_empty", H_C08_raw_empty)
	vRegister("H_C08_key", H_C08_key)
}

// nKeyLess: bytewise lexicographic order of two deterministic-form map keys (ints, strings)
func nKeyLess(a, b *vNodeT) (less bool, equal bool) {
	if nMajor(a) != nMajor(b) {
		return nMajor(a) < nMajor(b), false
	}
	switch nMajor(a) {
	case 0, 1, 7:
		return nArg(a) < nArg(b), nArg(a) == nArg(b)
	case 2, 3:
		x, y := nBytes(a), nBytes(b)
		if len(x) != len(y) {
			return len(x) < len(y), false
		}
		for i := 0; i < len(x); i++ {
			if x[i] != y[i] {
				return x[i] < y[i], false
			}
		}
		return false, true
	}
	return false, false
}

// nCanonical: deterministic CBOR (RFC 8949 4.2.1): shortest heads, definite lengths,
// map keys in strictly ascending bytewise order (hence no duplicates), at every level.
// bstr contents are opaque except the protected header of a COSE layer.
func nCanonical(n *vNodeT, protectedPos bool) bool {
	if !nMinimal(n) {
		return false
	}
	switch nMajor(n) {
	case 2:
		if protectedPos && len(nBytes(n)) > 0 {
			inner := vParse(nBytes(n))
			return inner != nil && nCanonical(inner, false)
		}
	case 4:
		cose := nLen(n) == 3 || nLen(n) == 4
		for i := 0; i < nLen(n); i++ {
			if !nCanonical(nChild(n, i), cose && i == 0) {
				return false
			}
		}
	case 6:
		return nCanonical(nChild(n, 0), false)
	case 5:
		for i := 0; i < nLen(n); i++ {
			if !nCanonical(nKey(n, i), false) || !nCanonical(nVal(n, i), false) {
				return false
			}
			if i > 0 {
				less, _ := nKeyLess(nKey(n, i-1), nKey(n, i))
				if !less {
					return false
				}
			}
		}
	}
	return true
}

func c08Entries() int {
	if vTier() == 1 {
		return 3
	}
	return 2
}

// header buckets: same bytes and same verdict whatever the map iteration order; canonical; decodable
func H_C08_header_maps() {
	vMapOrder()
	protected := vChoose("bucket", 2) == 0
	m := map[any]any{}
	n := 1 + vChoose("n", c08Entries())
	for i := 0; i < n; i++ {
		nm := "e" + vItoa(i)
		l, sl := c13GoLabel(nm, 6)
		if sl.isInt && !sl.bad {
			vAssume(vOr(sl.i > 300, sl.i < -300)) // unregistered labels: the parameter rules are C13's subject
		}
		if _, dup := m[l]; dup {
			vReach("same go key")
			return
		}
		v, _ := c13GoValue(nm, false)
		m[l] = v
	}
	enc := func() ([]byte, error) {
		if protected {
			return ProtectedHeader(m).MarshalCBOR()
		}
		return UnprotectedHeader(m).MarshalCBOR()
	}
	b1, e1 := enc()
	vMapOrder() // the second call draws its own schedule
	b2, e2 := enc()
	vAssert("headers: the verdict does not depend on the iteration order", (e1 == nil) == (e2 == nil))
	if e1 != nil || e2 != nil {
		vReach("refused")
		return
	}
	vAssert("headers: the bytes do not depend on the iteration order", vRopeEq(b1, b2))
	t := vParse(b1)
	vAssert("headers: output is one CBOR item", t != nil)
	if t == nil {
		return
	}
	vAssert("headers: output is deterministic CBOR (shortest heads, sorted unique keys)", nCanonical(t, protected))
	// closure: the library's own decoder accepts it and re-encodes to the same bytes
	var b3 []byte
	var derr, e3 error
	if protected {
		var h ProtectedHeader
		derr = h.UnmarshalCBOR(b1)
		if derr == nil {
			b3, e3 = h.MarshalCBOR()
		}
	} else {
		var h UnprotectedHeader
		derr = h.UnmarshalCBOR(b1)
		if derr == nil {
			b3, e3 = h.MarshalCBOR()
		}
	}
	vLogErr("decode", derr)
	vAssert("headers: every encoded header is accepted by the decoder", derr == nil)
	if derr == nil {
		vAssert("headers: the decoded value re-encodes", e3 == nil)
		if e3 == nil {
			vAssert("headers: decoded value is equivalent (same canonical bytes)", vRopeEq(b1, b3))
		}
	}
	vReach("end")
}

// nested containers as header values
func H_C08_nested_values() {
	vMapOrder()
	protected := vChoose("bucket", 2) == 0
	var v any
	dupNested := false
	switch vChoose("shape", 3) {
	case 0:
		l0, s0 := c13GoLabel("n0", 3)
		l1, s1 := c13GoLabel("n1", 3)
		inner := map[any]any{l0: vBlob("nv0")}
		if _, same := inner[l1]; same {
			vReach("same go key")
			return
		}
		inner[l1] = vInt64("nv1")
		dupNested = s0.i == s1.i
		v = inner
	case 1:
		a1 := vStr("a1", 2)
		vAssume(vUTF8(a1))
		v = []any{vInt64("a0"), a1, []any{vBlob("a2")}}
	case 2:
		ks := vStr("k", 2)
		vAssume(vUTF8(ks))
		v = map[any]any{ks: []any{vInt64("b0")}, int64(7): nil}
	}
	m := map[any]any{int64(1000): v}
	enc := func() ([]byte, error) {
		if protected {
			return ProtectedHeader(m).MarshalCBOR()
		}
		return UnprotectedHeader(m).MarshalCBOR()
	}
	vKnown("KF-C08-1", dupNested)
	b1, e1 := enc()
	vMapOrder() // the second call draws its own schedule
	b2, e2 := enc()
	vAssert("nested: verdict independent of iteration order", (e1 == nil) == (e2 == nil))
	if e1 != nil || e2 != nil {
		vReach("refused")
		return
	}
	vAssert("nested: bytes independent of iteration order", vRopeEq(b1, b2))
	t := vParse(b1)
	vAssert("nested: output is one item", t != nil)
	if t != nil {
		vAssert("nested: output is deterministic CBOR at every level", nCanonical(t, protected))
	}
	var derr error
	if protected {
		var h ProtectedHeader
		derr = h.UnmarshalCBOR(b1)
	} else {
		var h UnprotectedHeader
		derr = h.UnmarshalCBOR(b1)
	}
	vAssert("nested: every encoded header is accepted by the decoder", derr == nil)
	vReach("end")
}

func c08Headers(name string) Headers {
	h := Headers{Protected: ProtectedHeader(mkBenignMap(name+".p", 2, false)), Unprotected: UnprotectedHeader(mkBenignMap(name+".u", 1, false))}
	switch vChoose(name+".cs", 3) {
	case 1:
		h.Unprotected[HeaderLabelCounterSignatureV2] = c13ValidCountersignature(name + ".cs1")
	case 2: // lists of 1..4 (a list of three has the same array head as a single countersignature)
		var list []*Countersignature
		k := []int{1, 3}[vChoose(name+".csn", 2)]
		if vTier() == 1 {
			k = 1 + vChoose(name+".csn4", 4)
		}
		for i := 0; i < k; i++ {
			list = append(list, c13ValidCountersignature(name+".cs2"+vItoa(i)))
		}
		h.Unprotected[[]int64{HeaderLabelCounterSignature, HeaderLabelCounterSignatureV2}[vChoose(name+".cslabel", 2)]] = list
	}
	return h
}

// messages of every type
func H_C08_messages() {
	vMapOrder()
	h := c08Headers("m")
	sig := vBlobN("sig", 1, 100)
	var enc func() ([]byte, error)
	var dec func([]byte) ([]byte, error)
	switch vChoose("type", 5) {
	case 0:
		m := &Sign1Message{Headers: h, Payload: vBlob("payload"), Signature: sig}
		enc = m.MarshalCBOR
		dec = func(b []byte) ([]byte, error) {
			var d Sign1Message
			if err := d.UnmarshalCBOR(b); err != nil {
				return nil, err
			}
			vAssert("messages: the decoded payload is the encoded one (an empty payload is not a detached one)", d.Payload != nil && vRopeEq(d.Payload, m.Payload))
			vAssert("messages: the decoded signature is the encoded one", vRopeEq(d.Signature, m.Signature))
			return d.MarshalCBOR()
		}
	case 1:
		m := &UntaggedSign1Message{Headers: h, Payload: nil, Signature: sig}
		enc = m.MarshalCBOR
		dec = func(b []byte) ([]byte, error) {
			var d UntaggedSign1Message
			if err := d.UnmarshalCBOR(b); err != nil {
				return nil, err
			}
			return d.MarshalCBOR()
		}
	case 2:
		m := &SignMessage{Headers: h, Payload: vBlob("payload"), Signatures: []*Signature{
			{Headers: Headers{Protected: ProtectedHeader(mkBenignMap("s0.p", 1, false)), Unprotected: UnprotectedHeader{}}, Signature: sig},
			{Headers: Headers{Protected: ProtectedHeader{}, Unprotected: UnprotectedHeader(mkBenignMap("s1.u", 1, false))}, Signature: vBlobN("sig1", 1, 100)}}}
		enc = m.MarshalCBOR
		dec = func(b []byte) ([]byte, error) {
			var d SignMessage
			if err := d.UnmarshalCBOR(b); err != nil {
				return nil, err
			}
			vAssert("messages: the decoded payload is the encoded one (an empty payload is not a detached one)", d.Payload != nil && vRopeEq(d.Payload, m.Payload))
			return d.MarshalCBOR()
		}
	case 3:
		m := &Signature{Headers: h, Signature: sig}
		enc = m.MarshalCBOR
		dec = func(b []byte) ([]byte, error) {
			var d Signature
			if err := d.UnmarshalCBOR(b); err != nil {
				return nil, err
			}
			return d.MarshalCBOR()
		}
	case 4:
		m := &Countersignature{Headers: h, Signature: sig}
		enc = m.MarshalCBOR
		dec = func(b []byte) ([]byte, error) {
			var d Countersignature
			if err := d.UnmarshalCBOR(b); err != nil {
				return nil, err
			}
			return d.MarshalCBOR()
		}
	}
	b1, e1 := enc()
	vMapOrder() // the second call draws its own schedule
	b2, e2 := enc()
	vAssert("messages: a well-formed message encodes", e1 == nil && e2 == nil)
	if e1 != nil || e2 != nil {
		return
	}
	vAssert("messages: repeated encodings are identical whatever the iteration order", vRopeEq(b1, b2))
	t := vParse(b1)
	vAssert("messages: output is one item", t != nil)
	if t != nil {
		vAssert("messages: output is deterministic CBOR at every level", nCanonical(t, false))
	}
	b3, derr := dec(b1)
	vLogErr("decode", derr)
	vAssert("messages: the library decodes what it encodes", derr == nil)
	if derr == nil {
		vAssert("messages: decode + encode reproduces the bytes", vRopeEq(b1, b3))
	}
	vReach("end")
}

// raw fields that are empty but not nil count as absent (the documented test is on their length): the maps are
// what gets encoded, in every structure
func H_C08_raw_empty() {
	h := Headers{Protected: ProtectedHeader(mkBenignMap("p", 1, false)), Unprotected: UnprotectedHeader(mkBenignMap("u", 1, false))}
	switch vChoose("which", 3) {
	case 0:
		h.RawProtected = []byte{}
	case 1:
		h.RawUnprotected = []byte{}
	case 2:
		h.RawProtected, h.RawUnprotected = []byte{}, []byte{}
	}
	sig := vBlobN("sig", 1, 100)
	var b []byte
	var err, derr error
	var back Headers
	switch vChoose("type", 4) {
	case 0:
		b, err = (&Sign1Message{Headers: h, Payload: vBlob("payload"), Signature: sig}).MarshalCBOR()
		var d Sign1Message
		if err == nil {
			derr = d.UnmarshalCBOR(b)
			back = d.Headers
		}
	case 1:
		b, err = (&SignMessage{Headers: h, Payload: vBlob("payload"), Signatures: []*Signature{{Headers: h, Signature: sig}}}).MarshalCBOR()
		var d SignMessage
		if err == nil {
			derr = d.UnmarshalCBOR(b)
			back = d.Headers
		}
	case 2:
		b, err = (&Signature{Headers: h, Signature: sig}).MarshalCBOR()
		var d Signature
		if err == nil {
			derr = d.UnmarshalCBOR(b)
			back = d.Headers
		}
	case 3:
		b, err = (&Countersignature{Headers: h, Signature: sig}).MarshalCBOR()
		var d Countersignature
		if err == nil {
			derr = d.UnmarshalCBOR(b)
			back = d.Headers
		}
	}
	vAssert("raw-empty: the message encodes", err == nil)
	if err != nil {
		return
	}
	t := vParse(b)
	vAssert("raw-empty: output is one deterministic item", t != nil && nCanonical(t, false))
	vLogErr("decode", derr)
	vAssert("raw-empty: the library decodes what it encodes", derr == nil)
	if derr == nil {
		vAssert("raw-empty: the header maps are what was encoded", len(back.Protected) == len(h.Protected) && len(back.Unprotected) == len(h.Unprotected))
	}
	vReach("end")
}

// Sign helpers return bytes the matching decoder accepts
func H_C08_helpers() {
	vMapOrder()
	sp := &spySigner{alg: Algorithm(vInt64("alg")), sig: vBlobN("sig", 1, 100)}
	h := Headers{Protected: ProtectedHeader(mkBenignMap("p", 2, false)), Unprotected: UnprotectedHeader(mkBenignMap("u", 1, false))}
	switch vChoose("rawempty", 3) {
	case 1:
		h.RawProtected = []byte{}
	case 2:
		h.RawUnprotected = []byte{}
	}
	var out []byte
	var err, derr error
	which := vChoose("helper", 3)
	switch which {
	case 0:
		out, err = Sign1(nil, sp, h, vBlob("payload"), mkExternal("ext"))
		if err == nil {
			var d Sign1Message
			derr = d.UnmarshalCBOR(out)
		}
	case 1:
		out, err = Sign1Untagged(nil, sp, h, vBlob("payload"), mkExternal("ext"))
		if err == nil {
			var d UntaggedSign1Message
			derr = d.UnmarshalCBOR(out)
		}
	case 2:
		out, err = SignHashEnvelope(nil, sp, h, HashEnvelopePayload{HashAlgorithm: AlgorithmSHA384, HashValue: vBlobN("hash", 48, 48), Location: "loc"})
		if err == nil {
			var d Sign1Message
			derr = d.UnmarshalCBOR(out)
		}
	}
	if err != nil {
		vAssert("helpers: no bytes with an error", out == nil)
		vReach("refused")
		return
	}
	t := vParse(out)
	vAssert("helpers: output is one item", t != nil)
	if t != nil {
		vAssert("helpers: output is deterministic CBOR", nCanonical(t, false))
	}
	vAssert("helpers: the matching decoder accepts the returned bytes", derr == nil)
	vReach("end")
}

// COSE_Key
func H_C08_key() {
	vMapOrder()
	var k *Key
	switch vChoose("kind", 3) {
	case 0:
		kk, err := NewKeyFromPrivate(vECKey("ec", vCurve("curve")))
		vAssume(err == nil)
		k = kk
	case 1:
		kk, err := NewKeyFromPublic(vEdKey("ed").Public())
		vAssume(err == nil)
		k = kk
	case 2:
		k = NewKeySymmetric(vBlobN("sym", 1, 64))
	}
	switch vChoose("extras", 4) {
	case 3: // one label under two Go keys: a second spelling of a label the key already carries
		l, sl := c13GoLabel("cl", 3)
		vAssume(vAnd(sl.i >= -4, sl.i <= 5))
		if _, same := l.(int64); same {
			vReach("same go key")
			return
		}
		_, inParams := k.Params[sl.i]
		vAssume(vOr(inParams, sl.i == 1))
		k.Params[l] = vBlobN("cv", 0, 66)
	case 1:
		k.ID = vBlob("kid")
		k.Ops = []KeyOp{KeyOpVerify}
	case 2:
		l, sl := c13GoLabel("xl", 6)
		if sl.isInt && !sl.bad {
			vAssume(vOr(sl.i > 300, sl.i < -300))
		}
		k.Params[l] = vInt64("xv")
		k.BaseIV = vBlobN("biv", 1, 8)
	}
	b1, e1 := k.MarshalCBOR()
	vMapOrder() // the second call draws its own schedule
	b2, e2 := k.MarshalCBOR()
	vAssert("key: verdict independent of iteration order", (e1 == nil) == (e2 == nil))
	if e1 != nil || e2 != nil {
		vReach("refused")
		return
	}
	vAssert("key: bytes independent of iteration order", vRopeEq(b1, b2))
	t := vParse(b1)
	vAssert("key: output is one item", t != nil)
	if t != nil {
		vAssert("key: output is deterministic CBOR", nCanonical(t, false))
	}
	var d Key
	derr := d.UnmarshalCBOR(b1)
	vLogErr("decode", derr)
	vAssert("key: the decoder accepts every encoded key", derr == nil)
	if derr == nil {
		b3, e3 := d.MarshalCBOR()
		vAssert("key: decoded key is equivalent (same canonical bytes)", e3 == nil && vRopeEq(b1, b3))
	}
	vReach("end")
}
