//go:build verif

package cose

import "crypto/ed25519"

func init() {
	vRegister("H_C18_verify_messages", H_C18_verify_messages)
	vRegister("H_C18_marshal", H_C18_marshal)
	vRegister("H_C18_builtin_objects", H_C18_builtin_objects)
	vRegister("H_C18_keys", H_C18_keys)
	vRegister("H_C18_hashenv", H_C18_hashenv)
}

// Reduction: a data race needs a write. Every call below must perform no store
// into any object that existed before the call (the shared message, its maps
// and slices, the verifier / signer / key object, package-level variables).
// Then concurrent executions only read shared memory and each returns what it
// returns sequentially. The native twin compares deep snapshots.

type c18Shared struct {
	sign1 *Sign1Message
	sign  *SignMessage
	sig   *Signature
	cs    *Countersignature
	any   any
}

// mkC18Message: a constructed or decoded message of one of four kinds, with headers that exercise the read paths
func mkC18Message(name string) c18Shared {
	var sh c18Shared
	kind := vChoose(name+".kind", 4)
	decoded := vChoose(name+".decoded", 2) == 1
	feature := []int{0, 2, 4, 8}[vChoose(name+".feature", 4)]
	if vTier() == 1 {
		feature = vChoose(name+".tfeature", nLayerFeatures)
	}
	if decoded {
		fp := mkFaultPlan(0)
		switch kind {
		case 0:
			var m Sign1Message
			vAssume(m.UnmarshalCBOR(vSer(nnTag(18, mkSign1Body(name, feature, fp), 0))) == nil)
			sh.sign1, sh.any = &m, &m
		case 1:
			p, u := mkLayer(name, feature, fp, 0)
			pl := vBlob(name + ".payload")
			var m SignMessage
			vAssume(m.UnmarshalCBOR(vSer(nnTag(98, nnArray([]*vNodeT{p, u, nnBstr(pl, -1), nnArray([]*vNodeT{mkCountersig(name+".s", 2, fp, 1)}, -1)}, 0), 1))) == nil)
			sh.sign, sh.any = &m, &m
		case 2:
			var s Signature
			vAssume(s.UnmarshalCBOR(vSer(mkCountersig(name, feature, fp, 0))) == nil)
			sh.sig, sh.any = &s, &s
		case 3:
			var s Countersignature
			vAssume(s.UnmarshalCBOR(vSer(mkCountersig(name, feature, fp, 0))) == nil)
			sh.cs, sh.any = &s, &s
		}
		return sh
	}
	// constructed: labels spelt with mixed Go types, alg possibly absent (external data then lets Verify proceed)
	prot := ProtectedHeader{}
	if vChoose(name+".alg", 2) == 1 {
		prot[mkIntOfKind(vChoose(name+".algkind", 3), 1)] = AlgorithmES256
	}
	if feature == 4 {
		prot[HeaderLabelCritical] = []any{int64(4)}
		prot[int(4)] = vBlob(name + ".kid")
	}
	un := UnprotectedHeader(mkBenignMap(name+".u", 1, false))
	h := Headers{Protected: prot, Unprotected: un}
	if feature == 0 {
		// headers supplied in raw form only (an application that decodes headers itself): the parsed side is nil
		switch vChoose(name+".rawonly", 3) {
		case 1:
			h = Headers{RawProtected: []byte{0x43, 0xa1, 0x01, 0x26}, Unprotected: un}
		case 2:
			h = Headers{RawProtected: []byte{0x43, 0xa1, 0x01, 0x26}, RawUnprotected: []byte{0xa0}}
		}
	}
	sig := vBlobN(name+".sig", 1, 100)
	switch kind {
	case 0:
		sh.sign1 = &Sign1Message{Headers: h, Payload: vBlob(name + ".payload"), Signature: sig}
		sh.any = sh.sign1
	case 1:
		sh.sign = &SignMessage{Headers: Headers{Protected: ProtectedHeader{}, Unprotected: un}, Payload: vBlob(name + ".payload"),
			Signatures: []*Signature{{Headers: h, Signature: sig}}}
		sh.any = sh.sign
	case 2:
		sh.sig = &Signature{Headers: h, Signature: sig}
		sh.any = sh.sig
	case 3:
		sh.cs = &Countersignature{Headers: h, Signature: sig}
		sh.any = sh.cs
	}
	return sh
}

func H_C18_verify_messages() {
	sh := mkC18Message("m")
	ext := mkExternal("ext")
	sv := &spyVerifier{alg: AlgorithmES256, fail: vBool("vfail")}
	parent := &Sign1Message{Headers: Headers{Protected: ProtectedHeader{}, Unprotected: UnprotectedHeader{}}, Payload: vBlob("parent.payload"), Signature: vBlobN("parent.sig", 1, 50)}
	snapM, snapP := vSnapshot(sh.any), vSnapshot(parent)
	vFreeze()
	switch {
	case sh.sign1 != nil:
		sh.sign1.Verify(ext, sv)
		(*UntaggedSign1Message)(sh.sign1).Verify(ext, sv)
		VerifyCountersign0(sv, sh.sign1, ext, vBlobN("cs0", 1, 10))
		VerifyCountersign0(sv, *sh.sign1, ext, vBlobN("cs0v", 1, 10))
	case sh.sign != nil:
		sh.sign.Verify(ext, sv)
		VerifyCountersign0(sv, sh.sign, ext, vBlobN("cs0", 1, 10))
	case sh.sig != nil:
		sh.sig.Verify(sv, []byte{0x40}, vBlob("payload"), ext)
		VerifyCountersign0(sv, sh.sig, ext, vBlobN("cs0", 1, 10))
	case sh.cs != nil:
		sh.cs.Verify(sv, parent, ext)
		sh.cs.Verify(sv, *parent, ext)
		VerifyCountersign0(sv, sh.cs, ext, vBlobN("cs0", 1, 10))
	}
	vAssert("verify: no store into the shared message (headers, maps, slices)", !vChanged(sh.any, snapM))
	vAssert("verify: no store into the countersigned parent", !vChanged(parent, snapP))
	vAssert("verify: no store into package-level variables", vGlobalWrites() == 0)
	vUnfreeze()
	vReach("end")
}

func H_C18_marshal() {
	sh := mkC18Message("m")
	snapM := vSnapshot(sh.any)
	vFreeze()
	switch {
	case sh.sign1 != nil:
		sh.sign1.MarshalCBOR()
		(*UntaggedSign1Message)(sh.sign1).MarshalCBOR()
		sh.sign1.Headers.MarshalProtected()
		sh.sign1.Headers.MarshalUnprotected()
		sh.sign1.Headers.Protected.MarshalCBOR()
		sh.sign1.Headers.Unprotected.MarshalCBOR()
		sh.sign1.Headers.Protected.Algorithm()
		sh.sign1.Headers.Protected.Critical()
	case sh.sign != nil:
		sh.sign.MarshalCBOR()
	case sh.sig != nil:
		sh.sig.MarshalCBOR()
	case sh.cs != nil:
		sh.cs.MarshalCBOR()
	}
	vAssert("marshal: no store into the shared message", !vChanged(sh.any, snapM))
	vAssert("marshal: no store into package-level variables", vGlobalWrites() == 0)
	vUnfreeze()
	vReach("end")
}

// built-in verifiers and signers are stateless: one object may serve concurrent calls
func H_C18_builtin_objects() {
	var signer Signer
	var verifier Verifier
	var err error
	switch vChoose("family", 3) {
	case 0:
		alg := []Algorithm{AlgorithmES256, AlgorithmES384, AlgorithmES512}[vChoose("alg", 3)]
		key := vECKeyValid("key", vCurve("curve"))
		vAssume(vOnCurve(&key.PublicKey))
		signer, err = NewSigner(alg, key)
		vAssume(err == nil)
		verifier, err = NewVerifier(alg, &key.PublicKey)
		vAssume(err == nil)
	case 1:
		key := vRSAKeyValid("key")
		signer, err = NewSigner(AlgorithmPS256, key)
		vAssume(err == nil)
		verifier, err = NewVerifier(AlgorithmPS256, &key.PublicKey)
		vAssume(err == nil)
	case 2:
		key := vEdKey("key")
		signer, err = NewSigner(AlgorithmEdDSA, key)
		vAssume(err == nil)
		verifier, err = NewVerifier(AlgorithmEdDSA, ed25519.PublicKey(key[32:]))
		vAssume(err == nil)
	}
	m1 := &Sign1Message{Headers: Headers{Protected: ProtectedHeader{}, Unprotected: UnprotectedHeader{}}, Payload: vBlob("p1")}
	m2 := &Sign1Message{Headers: Headers{Protected: ProtectedHeader{}, Unprotected: UnprotectedHeader{}}, Payload: vBlob("p2")}
	vAssume(!vRopeEq(m1.Payload, m2.Payload)) // distinct messages
	snapS, snapV := vSnapshot(signer), vSnapshot(verifier)
	vFreeze()
	var e1, e2 error
	vInterleaved(
		func() { e1 = m1.Sign(vYieldRand(), nil, signer) },
		func() { e2 = m2.Sign(vYieldRand(), nil, signer) })
	vLogErr("sign m1", e1)
	vLogErr("sign m2", e2)
	vAssert("builtin: signing writes nothing into the shared signer", !vChanged(signer, snapS))
	vAssert("builtin: signing message 1 writes nothing into message 2", vWritesInto(m2) <= 2 && vGlobalWrites() == 0)
	if e1 == nil && e2 == nil {
		r1 := m1.Verify(nil, verifier)
		r2 := m2.Verify(nil, verifier)
		vAssert("builtin: messages signed concurrently with one signer verify like sequentially signed ones", r1 == nil && r2 == nil)
		if dv, ok := verifier.(DigestVerifier); ok {
			dv.VerifyDigest(vBlobN("digest", 32, 32), m1.Signature)
		}
		vAssert("builtin: verifying writes nothing into the shared verifier", !vChanged(verifier, snapV))
		vAssert("builtin: no package-level state", vGlobalWrites() == 0)
	}
	vUnfreeze()
	vReach("end")
}

func H_C18_keys() {
	fp := mkFaultPlan(0)
	keyTreeNoVary = false // short coordinates matter: encoding pads them
	var k Key
	vAssume(k.UnmarshalCBOR(vSer(mkConfKeyTree("k", fp))) == nil)
	snapK := vSnapshot(&k)
	vFreeze()
	k.MarshalCBOR()
	k.PublicKey()
	k.PrivateKey()
	k.Verifier()
	k.Signer()
	k.AlgorithmOrDefault()
	k.EC2()
	k.OKP()
	vAssert("keys: conversions and encoding never store into the shared key", !vChanged(&k, snapK))
	vAssert("keys: no package-level state", vGlobalWrites() == 0)
	vUnfreeze()
	vReach("end")
}

func H_C18_hashenv() {
	fp := mkFaultPlan(0)
	pm := nnMap([]*vNodeT{nnInt(0, 1, -1), nnInt(1, 6, -1), nnInt(0, 258, -1), nnInt(1, 15, -1)}, -1)
	_, u := mkLayer("m", 6, fp, 0)
	hv := vBlobN("hash", 32, 32)
	envelope := vSer(nnTag(18, nnArray([]*vNodeT{nnBstr(vSer(pm), -1), u, nnBstr(hv, -1), nnBstr(vBlobN("sig", 1, 64), -1)}, 0), 0))
	sv := &spyVerifier{alg: AlgorithmES256}
	snapE := vSnapshot(envelope)
	vFreeze()
	_, err := VerifyHashEnvelope(sv, envelope)
	vAssert("hashenv: a conforming envelope verifies", err == nil)
	vAssert("hashenv: the shared envelope bytes are not written", !vChanged(envelope, snapE))
	vAssert("hashenv: no package-level state", vGlobalWrites() == 0)
	vUnfreeze()
	vReach("end")
}
