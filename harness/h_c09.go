//go:build verif

package cose

func init() {
	vRegister("H_C09_hashenv", H_C09_hashenv)
	vRegister("H_C09_sign1", H_C09_sign1)
	vRegister("H_C09_sign", H_C09_sign)
	vRegister("H_C09_signature", H_C09_signature)
	vRegister("H_C09_canonical_fixpoint", H_C09_canonical_fixpoint)
}

// c09Layer: header buckets of one layer with arbitrary encoder choices (features incl. nested countersignatures)
func c09Layer(name string, feature int) (*vNodeT, *vNodeT) {
	return mkLayer(name, feature, mkFaultPlan(0), 0)
}

// decode + encode: both buckets byte-identical, payload / signature contents identical with shortest heads
func H_C09_sign1() {
	p, u := c09Layer("m", vChoose("feature", nLayerFeatures))
	payload := vBlob("payload")
	detached := vChoose("detached", 2) == 1
	var pl *vNodeT
	if detached {
		pl = nnSimple(22, 0)
	} else {
		pl = nnBstr(payload, vWidth("plw", uint64(len(payload))))
	}
	sig := vBlobN("sig", 1, 200)
	body := nnArray([]*vNodeT{p, u, pl, nnBstr(sig, vWidth("sigw", uint64(len(sig))))}, 0)
	tagged := vChoose("tagged", 2) == 0
	var m Sign1Message
	var out []byte
	var err error
	if tagged {
		vAssume(m.UnmarshalCBOR(vSer(nnTag(18, body, 0))) == nil)
		vOtherTraffic("x")
		out, err = m.MarshalCBOR()
	} else {
		vAssume((*UntaggedSign1Message)(&m).UnmarshalCBOR(vSer(body)) == nil)
		vOtherTraffic("x")
		out, err = (*UntaggedSign1Message)(&m).MarshalCBOR()
	}
	vAssert("sign1: an accepted message re-encodes", err == nil)
	if err != nil {
		return
	}
	w := vParse(out)
	vAssert("sign1: output is one item", w != nil)
	if w == nil {
		return
	}
	if tagged {
		vAssert("sign1: output is tag 18, shortest form", nMajor(w) == 6 && nArg(w) == 18 && nMinimal(w))
		w = nChild(w, 0)
	}
	ok := nMajor(w) == 4 && nLen(w) == 4 && nMinimal(w)
	vAssert("sign1: output body is a 4-array, shortest head", ok)
	if !ok {
		return
	}
	vAssert("sign1: protected bucket reproduced byte-for-byte", vRopeEq(nRaw(nChild(w, 0)), nRaw(p)))
	vAssert("sign1: unprotected bucket reproduced byte-for-byte", vRopeEq(nRaw(nChild(w, 1)), nRaw(u)))
	if detached {
		vAssert("sign1: nil payload stays nil", nMajor(nChild(w, 2)) == 7 && nArg(nChild(w, 2)) == 22)
	} else {
		vAssert("sign1: payload content identical, shortest head", nMajor(nChild(w, 2)) == 2 && nMinimal(nChild(w, 2)) && vRopeEq(nBytes(nChild(w, 2)), payload))
	}
	vAssert("sign1: signature content identical, shortest head", nMajor(nChild(w, 3)) == 2 && nMinimal(nChild(w, 3)) && vRopeEq(nBytes(nChild(w, 3)), sig))
	// the bytes a verifier is asked to check are the same before and after the round trip
	if !detached {
		ext := mkExternal("ext")
		sv1 := &spyVerifier{alg: Algorithm(vInt64("valg"))}
		e1 := m.Verify(ext, sv1)
		var m2 Sign1Message
		var derr error
		if tagged {
			derr = m2.UnmarshalCBOR(out)
		} else {
			derr = (*UntaggedSign1Message)(&m2).UnmarshalCBOR(out)
		}
		vAssert("sign1: the re-encoded message decodes", derr == nil)
		if derr == nil {
			sv2 := &spyVerifier{alg: sv1.alg}
			e2 := m2.Verify(ext, sv2)
			vAssert("sign1: same verdict path before and after", (e1 == nil) == (e2 == nil))
			if e1 == nil && e2 == nil {
				vAssert("sign1: ToBeSigned unchanged by the round trip", vRopeEq(sv1.content, sv2.content))
				vAssert("sign1: signature unchanged by the round trip", vRopeEq(sv1.sig, sv2.sig))
			}
		}
	}
	// deterministically encoded input is reproduced exactly
	if nDeterministic(body) {
		in := vSer(body)
		if tagged {
			in = vSer(nnTag(18, body, 0))
		}
		vAssert("sign1: deterministic input => identical output", vRopeEq(out, in))
		vReach("deterministic")
	}
	vReach("end")
}

// nDeterministic: every head in the tree is in shortest form (the protected
// bstr of each layer - first element of a COSE 3/4-array - is looked into);
// the generators emit map keys in ascending order, so this is deterministic encoding
func nDeterministic(n *vNodeT) bool { return nDet(n, false) }

func nDet(n *vNodeT, protectedPos bool) bool {
	if !nMinimal(n) {
		return false
	}
	switch nMajor(n) {
	case 2:
		if protectedPos {
			c := nBytes(n)
			if len(c) > 0 {
				if inner := vParse(c); inner != nil {
					return nDet(inner, false)
				}
			}
		}
	case 4:
		cose := nLen(n) == 3 || nLen(n) == 4
		for i := 0; i < nLen(n); i++ {
			if !nDet(nChild(n, i), cose && i == 0) {
				return false
			}
		}
	case 6:
		return nDet(nChild(n, 0), false)
	case 5:
		for i := 0; i < nLen(n); i++ {
			if !nDet(nKey(n, i), false) || !nDet(nVal(n, i), false) {
				return false
			}
		}
	}
	return true
}

func H_C09_signature() {
	p, u := c09Layer("s", vChoose("feature", nLayerFeatures))
	sig := vBlobN("sig", 1, 200)
	in := nnArray([]*vNodeT{p, u, nnBstr(sig, vWidth("sigw", uint64(len(sig))))}, 0)
	var out []byte
	var err error
	if vChoose("type", 2) == 0 {
		var s Signature
		vAssume(s.UnmarshalCBOR(vSer(in)) == nil)
		out, err = s.MarshalCBOR()
	} else {
		var s Countersignature
		vAssume(s.UnmarshalCBOR(vSer(in)) == nil)
		out, err = s.MarshalCBOR()
	}
	vAssert("signature: re-encodes", err == nil)
	if err != nil {
		return
	}
	w := vParse(out)
	ok := w != nil && nMajor(w) == 4 && nLen(w) == 3 && nMinimal(w)
	vAssert("signature: output is a 3-array", ok)
	if !ok {
		return
	}
	vAssert("signature: protected bucket reproduced byte-for-byte", vRopeEq(nRaw(nChild(w, 0)), nRaw(p)))
	vAssert("signature: unprotected bucket reproduced byte-for-byte", vRopeEq(nRaw(nChild(w, 1)), nRaw(u)))
	vAssert("signature: signature content identical, shortest head", nMajor(nChild(w, 2)) == 2 && nMinimal(nChild(w, 2)) && vRopeEq(nBytes(nChild(w, 2)), sig))
	if nDeterministic(in) {
		vAssert("signature: deterministic input => identical output", vRopeEq(out, vSer(in)))
		vReach("deterministic")
	}
	vReach("end")
}

func H_C09_sign() {
	focus := vChoose("focus", 3)
	feature := vChoose("feature", nLayerFeatures)
	f := func(i int) int {
		if i == focus {
			return feature
		}
		return 0
	}
	p, u := c09Layer("m", f(0))
	payload := vBlob("payload")
	n := 1 + vChoose("nsig", 2)
	var sigNodes []*vNodeT
	var sp, su []*vNodeT
	var sigBytes [][]byte
	for i := 0; i < n; i++ {
		a, b := c09Layer("s"+vItoa(i), f(i+1))
		sb := vBlobN("sig"+vItoa(i), 1, 200)
		sp, su, sigBytes = append(sp, a), append(su, b), append(sigBytes, sb)
		sigNodes = append(sigNodes, nnArray([]*vNodeT{a, b, nnBstr(sb, vWidth("sigw"+vItoa(i), uint64(len(sb))))}, 0))
	}
	in := nnTag(98, nnArray([]*vNodeT{p, u, nnBstr(payload, vWidth("plw", uint64(len(payload)))), nnArray(sigNodes, vWidth("saw", uint64(n)))}, 0), 1)
	var m SignMessage
	vAssume(m.UnmarshalCBOR(vSer(in)) == nil)
	out, err := m.MarshalCBOR()
	vAssert("sign: re-encodes", err == nil)
	if err != nil {
		return
	}
	w := vParse(out)
	ok := w != nil && nMajor(w) == 6 && nArg(w) == 98 && nMinimal(w) && nMajor(nChild(w, 0)) == 4 && nLen(nChild(w, 0)) == 4
	vAssert("sign: output is tag 98 + 4-array", ok)
	if !ok {
		return
	}
	b := nChild(w, 0)
	vAssert("sign: body protected reproduced byte-for-byte", vRopeEq(nRaw(nChild(b, 0)), nRaw(p)))
	vAssert("sign: body unprotected reproduced byte-for-byte", vRopeEq(nRaw(nChild(b, 1)), nRaw(u)))
	vAssert("sign: payload content identical", nMajor(nChild(b, 2)) == 2 && nMinimal(nChild(b, 2)) && vRopeEq(nBytes(nChild(b, 2)), payload))
	sa := nChild(b, 3)
	ok = nMajor(sa) == 4 && nLen(sa) == n && nMinimal(sa)
	vAssert("sign: signatures array has n entries, shortest head", ok)
	if !ok {
		return
	}
	for i := 0; i < n; i++ {
		s := nChild(sa, i)
		ok := nMajor(s) == 4 && nLen(s) == 3
		vAssert("sign: each COSE_Signature is a 3-array", ok)
		if ok {
			vAssert("sign: signer protected reproduced byte-for-byte", vRopeEq(nRaw(nChild(s, 0)), nRaw(sp[i])))
			vAssert("sign: signer unprotected reproduced byte-for-byte", vRopeEq(nRaw(nChild(s, 1)), nRaw(su[i])))
			vAssert("sign: signature content identical", vRopeEq(nBytes(nChild(s, 2)), sigBytes[i]))
		}
	}
	if nDeterministic(in) {
		vAssert("sign: deterministic input => identical output", vRopeEq(out, vSer(in)))
		vReach("deterministic")
	}
	vReach("end")
}

// discarding the retained raw bytes gives a canonical form that is a fixed point of decode / encode
func H_C09_canonical_fixpoint() {
	p, u := c09Layer("m", vChoose("feature", nLayerFeatures))
	payload := vBlob("payload")
	sig := vBlobN("sig", 1, 200)
	in := nnTag(18, nnArray([]*vNodeT{p, u, nnBstr(payload, vWidth("plw", uint64(len(payload)))), nnBstr(sig, vWidth("sigw", uint64(len(sig))))}, 0), 0)
	var m Sign1Message
	vAssume(m.UnmarshalCBOR(vSer(in)) == nil)
	clearRaw := func(h *Headers) {
		h.RawProtected, h.RawUnprotected = nil, nil
		for _, v := range h.Unprotected {
			switch c := v.(type) {
			case *Countersignature:
				c.Headers.RawProtected, c.Headers.RawUnprotected = nil, nil
				for _, v2 := range c.Headers.Unprotected {
					if c2, ok := v2.(*Countersignature); ok {
						c2.Headers.RawProtected, c2.Headers.RawUnprotected = nil, nil
					}
				}
			case []*Countersignature:
				for _, x := range c {
					x.Headers.RawProtected, x.Headers.RawUnprotected = nil, nil
				}
			}
		}
	}
	clearRaw(&m.Headers)
	b1, err := m.MarshalCBOR()
	vAssert("fixpoint: the parsed form encodes", err == nil)
	if err != nil {
		return
	}
	var m2 Sign1Message
	derr := m2.UnmarshalCBOR(b1)
	vAssert("fixpoint: the canonical form decodes", derr == nil)
	if derr != nil {
		return
	}
	clearRaw(&m2.Headers)
	b2, err2 := m2.MarshalCBOR()
	vAssert("fixpoint: encodes again", err2 == nil)
	if err2 != nil {
		return
	}
	vAssert("fixpoint: decode + encode of the canonical form changes nothing", vRopeEq(b1, b2))
	vReach("end")
}

// the message VerifyHashEnvelope hands back is a decoded message like any other: re-encoding it
// reproduces the received header buckets byte for byte (any key order, any head widths)
func H_C09_hashenv() {
	alg := nnInt(1, 6, vWidth("algw", 6))   // ES256
	halg := nnInt(1, 15, vWidth("halgw", 15)) // SHA-256
	k1 := nnInt(0, 1, vWidth("k1w", 1))
	k258 := nnInt(0, 258, vWidth("k258w", 258))
	pairs := []*vNodeT{k1, alg, k258, halg}
	if vChoose("order", 2) == 1 { // the sender's key order
		pairs = []*vNodeT{k258, halg, k1, alg}
	}
	if vChoose("loc", 2) == 1 {
		s := vStr("locs", 3)
		vAssume(vUTF8(s))
		vAssume(len(s) > 0)
		pairs = append(pairs, nnInt(0, 260, vWidth("k260w", 260)), nnTstr(s, vWidth("locw", uint64(len(s)))))
	}
	content := vSer(nnMap(pairs, vWidth("pmw", uint64(len(pairs)/2))))
	p := nnBstr(content, vWidth("pbw", uint64(len(content))))
	_, u := mkLayer("m.u", 6, mkFaultPlan(0), 0)
	hash := vBlobN("hash", 32, 32)
	sig := vBlobN("sig", 1, 100)
	wire := vSer(nnTag(18, nnArray([]*vNodeT{p, u, nnBstr(hash, vWidth("hw", 32)), nnBstr(sig, vWidth("sw", uint64(len(sig))))}, 0), 0))
	m, err := VerifyHashEnvelope(&spyVerifier{alg: AlgorithmES256}, wire)
	vAssume(err == nil)
	out, merr := m.MarshalCBOR()
	vAssert("hashenv: the verified envelope re-encodes", merr == nil)
	if merr != nil {
		return
	}
	w := vParse(out)
	ok := w != nil && nMajor(w) == 6 && nMajor(nChild(w, 0)) == 4 && nLen(nChild(w, 0)) == 4
	vAssert("hashenv: output is tag + 4-array", ok)
	if !ok {
		return
	}
	body := nChild(w, 0)
	vAssert("hashenv: protected bucket reproduced byte-for-byte", vRopeEq(nRaw(nChild(body, 0)), nRaw(p)))
	vAssert("hashenv: unprotected bucket reproduced byte-for-byte", vRopeEq(nRaw(nChild(body, 1)), nRaw(u)))
	vReach("end")
}
