//go:build verif

package cose

import (
	"crypto/ecdsa"
	"encoding/asn1"
	"crypto/ed25519"
	"crypto/rsa"
	"math/big"
)

func init() {
	vRegister("H_C03_sign1_iff", H_C03_sign1_iff)
	vRegister("H_C03_sign_iff", H_C03_sign_iff)
	vRegister("H_C03_countersignature_iff", H_C03_countersignature_iff)
	vRegister("H_C03_kinds_separated", H_C03_kinds_separated)
	vRegister("H_C03_transplant", H_C03_transplant)
	vRegister("H_C03_signature_forms", H_C03_signature_forms)
	vRegister("H_C03_unprotected_edits", H_C03_unprotected_edits)
	vRegister("H_C03_countersign_forms", H_C03_countersign_forms)
}

// refVerifier: a built-in verifier and the primitive's verdict on (ToBeSigned, signature) stated independently
type refVerifier struct {
	alg     Algorithm
	ver     Verifier
	verdict func(tbs, sig []byte) bool
	sign    func(tbs []byte) []byte // a genuine signature by the holder of the private key
}

func mkRefVerifier(name string) *refVerifier {
	rv := &refVerifier{}
	kind := c07Pick(name+".algkind", 7, 0)
	switch kind {
	case 0, 1, 2:
		rv.alg = []Algorithm{AlgorithmES256, AlgorithmES384, AlgorithmES512}[kind]
		c := vCurveByIndex(c07Pick(name+".curve", 3, 6))
		key := vECKeyValid(name+".key", c)
		vAssume(vOnCurve(&key.PublicKey))
		v, err := NewVerifier(rv.alg, &key.PublicKey)
		vAssume(err == nil)
		rv.ver = v
		n := refOrderSize(c)
		h := refHashOfAlg(int64(rv.alg))
		rv.verdict = func(tbs, sig []byte) bool {
			if len(sig) != 2*n {
				return false
			}
			return vEcdsaVerdict(&key.PublicKey, vHash(h, tbs), new(big.Int).SetBytes(sig[:n]), new(big.Int).SetBytes(sig[n:]))
		}
		rv.sign = func(tbs []byte) []byte {
			r, s := vEcdsaSign(key, vHash(h, tbs))
			return append(refFixed(r, n), refFixed(s, n)...)
		}
	case 3:
		rv.alg = AlgorithmEdDSA
		key := vEdKey(name + ".key")
		pub := key.Public().(ed25519.PublicKey)
		v, err := NewVerifier(rv.alg, pub)
		vAssume(err == nil)
		rv.ver = v
		rv.verdict = func(tbs, sig []byte) bool { return vEdVerdict(pub, tbs, sig) }
		rv.sign = func(tbs []byte) []byte { return vEdSign(key, tbs) }
	default:
		rv.alg = []Algorithm{AlgorithmPS256, AlgorithmPS384, AlgorithmPS512}[kind-4]
		key := vRSAKeyValid(name + ".key")
		v, err := NewVerifier(rv.alg, &key.PublicKey)
		vAssume(err == nil)
		rv.ver = v
		h := refHashOfAlg(int64(rv.alg))
		rv.verdict = func(tbs, sig []byte) bool { return vRSAVerdict(&key.PublicKey, h, vHash(h, tbs), sig) }
		rv.sign = func(tbs []byte) []byte { return vRSAPSSSign(key, h, vHash(h, tbs)) }
	}
	return rv
}

// wire alg: the alg parameter of the received protected header: matching, mismatching (symbolic), or absent
func c03AlgPairs(name string, rv *refVerifier) (pairs []*vNodeT, present bool, matches bool) {
	switch c07Pick(name+".algcase", 3, 1) {
	case 0:
		return c07AlgEntry(name, rv.alg), true, true
	case 1:
		mag := vUint64(name + ".othermag")
		vAssume(mag <= 1<<63-1)
		sign := vChoose(name+".othersign", 2)
		var a int64
		if sign == 0 {
			a = int64(mag)
		} else {
			a = -1 - int64(mag)
		}
		return []*vNodeT{nnInt(0, 1, vWidth(name+".algkw", 1)), nnInt(sign, mag, vWidth(name+".algvw", mag))}, true, a == int64(rv.alg)
	}
	return nil, false, false
}

func c03Protected(name string, pairs []*vNodeT) (*vNodeT, []byte) {
	if c07Pick(name+".pextra", 2, 2) == 1 {
		b := vBlob(name + ".kid")
		pairs = append(pairs, nnInt(0, 4, vWidth(name+".kidkw", 4)), nnBstr(b, vWidth(name+".kidw", uint64(len(b)))))
	}
	content := []byte{}
	if len(pairs) > 0 {
		content = vSer(nnMap(pairs, vWidth(name+".pmw", uint64(len(pairs)/2))))
	}
	return nnBstr(content, vWidth(name+".pbw", uint64(len(content)))), content
}

// COSE_Sign1: Verify == nil  <=>  payload present, signature non-empty, alg agreement, and the primitive accepts
// (key, hash(alg), RFC Sig_structure over the received bytes, signature)
func H_C03_sign1_iff() {
	c07Start(7)
	rv := mkRefVerifier("v")
	pairs, present, matches := c03AlgPairs("m", rv)
	prot, protContent := c03Protected("m", pairs)
	var unprot *vNodeT
	if uf := c07Pick("m.ufeature", 3, 3); uf < 2 {
		_, unprot = mkLayer("m.u", 6+uf, mkFaultPlan(0), 0)
	} else {
		// an alg parameter in the unprotected bucket (any value, e.g. the verifier's own): attacker-editable, never consulted
		mag := vUint64("m.ualg")
		vAssume(mag <= 1<<63-1)
		unprot = nnMap([]*vNodeT{nnInt(0, 1, -1), nnInt(vChoose("m.ualgsign", 2), mag, vWidth("m.ualgw", mag))}, -1)
	}
	payload := vBlob("payload")
	sig := vBlobN("sig", 1, 600)
	ext := c07External()
	detached := c07Pick("detached", 2, 4) == 1
	var pl *vNodeT
	if detached {
		pl = nnSimple(22, 0)
	} else {
		pl = nnBstr(payload, vWidth("plw", uint64(len(payload))))
	}
	var m Sign1Message
	vAssume(m.UnmarshalCBOR(vSer(nnTag(18, nnArray([]*vNodeT{prot, unprot, pl, nnBstr(sig, vWidth("sigw", uint64(len(sig))))}, 0), 0))) == nil)
	res := m.Verify(ext, rv.ver)
	algOK := (present && matches) || (!present && len(ext) > 0)
	expect := !detached && algOK && rv.verdict(refSigStructure("Signature1", [][]byte{protContent}, ext, payload, nil), sig)
	if expect {
		vAssert("sign1: a signature the primitive accepts over the received bytes verifies", res == nil)
	} else {
		vAssert("sign1: anything else is an error, never nil", res != nil)
	}
	if res != nil && !detached && algOK {
		vAssert("sign1: a rejected signature is ErrVerification", res == ErrVerification)
	}
	vReach("end")
	var _ *ecdsa.PublicKey
	var _ *rsa.PublicKey
}

// COSE_Sign with one or two signers
func H_C03_sign_iff() {
	c07Start(7)
	rv := mkRefVerifier("v")
	pairs, present, matches := c03AlgPairs("s0", rv)
	sprot, scontent := c03Protected("s0", pairs)
	bodyContent := []byte{}
	if c07Pick("m.pform", 2, 5) == 1 {
		bodyContent = vSer(nnMap(nil, vWidth("m.emw", 0)))
	}
	bodyProt := nnBstr(bodyContent, vWidth("m.pbw", uint64(len(bodyContent))))
	payload := vBlob("payload")
	sig := vBlobN("sig", 1, 600)
	ext := c07External()
	s0 := nnArray([]*vNodeT{sprot, nnMap(nil, 0), nnBstr(sig, vWidth("sigw", uint64(len(sig))))}, 0)
	var m SignMessage
	vAssume(m.UnmarshalCBOR(vSer(nnTag(98, nnArray([]*vNodeT{bodyProt, nnMap(nil, 0), nnBstr(payload, vWidth("plw", uint64(len(payload)))), nnArray([]*vNodeT{s0}, 0)}, 0), 1))) == nil)
	res := m.Verify(ext, rv.ver)
	algOK := (present && matches) || (!present && len(ext) > 0)
	expect := algOK && rv.verdict(refSigStructure("Signature", [][]byte{bodyContent, scontent}, ext, payload, nil), sig)
	if expect {
		vAssert("sign: a signature the primitive accepts over the received bytes verifies", res == nil)
	} else {
		vAssert("sign: anything else is an error, never nil", res != nil)
	}
	vReach("end")
}

// a countersignature over a decoded COSE_Sign1 parent
func H_C03_countersignature_iff() {
	c07Start(6) // quick: the verifier's curve is not varied here (sign1 / sign harnesses do)
	rv := mkRefVerifier("v")
	pairs, present, matches := c03AlgPairs("cs", rv)
	cprot, ccontent := c03Protected("cs", pairs)
	pprot, pcontent := c03Protected("parent", nil)
	payload := vBlob("payload")
	psig := vBlobN("parent.sig", 1, 200)
	csig := vBlobN("sig", 1, 600)
	ext := c07External()
	cs := nnArray([]*vNodeT{cprot, nnMap(nil, 0), nnBstr(csig, vWidth("csigw", uint64(len(csig))))}, 0)
	unprot := nnMap([]*vNodeT{nnInt(0, 11, -1), cs}, -1)
	var m Sign1Message
	vAssume(m.UnmarshalCBOR(vSer(nnTag(18, nnArray([]*vNodeT{pprot, unprot, nnBstr(payload, -1), nnBstr(psig, vWidth("psigw", uint64(len(psig))))}, 0), 0))) == nil)
	got, ok := m.Headers.Unprotected[HeaderLabelCounterSignatureV2].(*Countersignature)
	vAssume(ok)
	res := got.Verify(rv.ver, &m, ext)
	algOK := (present && matches) || (!present && len(ext) > 0)
	tbs := refSigStructure("CounterSignatureV2", [][]byte{pcontent, ccontent}, ext, payload, []*vNodeT{nnBstr(psig, -1)})
	if algOK && rv.verdict(tbs, csig) {
		vAssert("countersignature: accepted by the primitive over the RFC 9338 structure => nil", res == nil)
	} else {
		vAssert("countersignature: anything else is an error", res != nil)
	}
	// the abbreviated form over the same parent is a different statement
	res0 := VerifyCountersign0(rv.ver, &m, ext, csig)
	tbs0 := refSigStructure("CounterSignature0V2", [][]byte{pcontent, {}}, ext, payload, []*vNodeT{nnBstr(psig, -1)})
	if rv.verdict(tbs0, csig) {
		vAssert("countersignature0: accepted by the primitive over its own structure => nil", res0 == nil)
	} else {
		vAssert("countersignature0: anything else is an error", res0 != nil)
	}
	vReach("end")
}

// the five signed structures are pairwise different byte strings for the same fields
func H_C03_kinds_separated() {
	p := vBlob("prot")
	sp := vBlob("signprot")
	ext := vBlob("ext")
	pl := vBlob("payload")
	sig := vBlob("psig")
	var all [][]byte
	all = append(all, refSigStructure("Signature1", [][]byte{p}, ext, pl, nil))
	all = append(all, refSigStructure("Signature", [][]byte{p, sp}, ext, pl, nil))
	all = append(all, refSigStructure("CounterSignature", [][]byte{p, sp}, ext, pl, nil))
	all = append(all, refSigStructure("CounterSignatureV2", [][]byte{p, sp}, ext, pl, []*vNodeT{nnBstr(sig, -1)}))
	all = append(all, refSigStructure("CounterSignature0", [][]byte{p, sp}, ext, pl, nil))
	all = append(all, refSigStructure("CounterSignature0V2", [][]byte{p, sp}, ext, pl, []*vNodeT{nnBstr(sig, -1)}))
	for i := 0; i < len(all); i++ {
		for j := i + 1; j < len(all); j++ {
			vAssert("kinds: structures of different kinds never coincide", !vRopeEq(all[i], all[j]))
		}
	}
	vReach("end")
}

// genuine signatures made over a *variant* of the message (one structural edit away):
// the verdict on the received message is still exactly the primitive's verdict over
// the RFC structure of the received bytes - a library that signs / verifies over
// anything else accepts (or rejects) what it must not, and natively the genuine
// signature makes that observable.
func H_C03_transplant() {
	c07Start(8)
	rv := mkRefVerifier("v")
	// signer-level protected header {1: alg} in any encoding
	sprot, scontent := c03Protected("s0", c07AlgEntry("s0", rv.alg))
	// the received body protected header: h'' or h'a0'
	bodyForm := vChoose("body.form", 2)
	bodyContent := []byte{}
	if bodyForm == 1 {
		bodyContent = vSer(nnMap(nil, vWidth("body.emw", 0)))
	}
	bodyProt := nnBstr(bodyContent, vWidth("body.pbw", uint64(len(bodyContent))))
	payload := vBlob("payload")
	ext := c07External()
	// what the signature was really made over
	edit := c07Pick("edit", 6, 7)
	sBody, sPayload, sExt, sCtx := bodyContent, payload, ext, "Signature"
	sProts := [][]byte{nil, scontent}
	switch edit {
	case 1: // the other spelling of the empty body protected header
		if bodyForm == 1 {
			sBody = []byte{}
		} else {
			sBody = []byte{0xa0}
		}
	case 2:
		sPayload = vBlob("other.payload")
	case 3:
		sExt = vBlobN("other.ext", 1, 100)
	case 4: // a COSE_Sign1 signature replayed inside a COSE_Sign
		sCtx = "Signature1"
	case 5: // a different unprotected bucket only: must not matter (handled below)
	}
	sProts[0] = sBody
	var tbsSigned []byte
	if sCtx == "Signature1" {
		tbsSigned = refSigStructure("Signature1", [][]byte{scontent}, sExt, sPayload, nil)
	} else {
		tbsSigned = refSigStructure("Signature", sProts, sExt, sPayload, nil)
	}
	sig := rv.sign(tbsSigned)
	un := nnMap(nil, vWidth("s0.uw", 0))
	if edit == 5 {
		un = mkWireHeaderMap("s0.u", 1)
	}
	s0 := nnArray([]*vNodeT{sprot, un, nnBstr(sig, vWidth("sigw", uint64(len(sig))))}, 0)
	var m SignMessage
	vAssume(m.UnmarshalCBOR(vSer(nnTag(98, nnArray([]*vNodeT{bodyProt, nnMap(nil, 0), nnBstr(payload, vWidth("plw", uint64(len(payload)))), nnArray([]*vNodeT{s0}, 0)}, 0), 1))) == nil)
	res := m.Verify(ext, rv.ver)
	tbsReceived := refSigStructure("Signature", [][]byte{bodyContent, scontent}, ext, payload, nil)
	if rv.verdict(tbsReceived, sig) {
		vAssert("transplant: valid over the received bytes => nil", res == nil)
	} else {
		vAssert("transplant: a signature made over anything but the received bytes' structure is an error", res != nil)
	}
	if edit == 0 || edit == 5 {
		vAssert("transplant: the genuine signature of this very message verifies (unprotected headers do not matter)", res == nil)
	}
	vReach("end")
}

// a genuine ECDSA signature of this very message, re-spelt (stripped, padded, DER, truncated, extended):
// only the exact 2n-byte form is accepted through the message API (Sign1 and countersignature0)
func H_C03_signature_forms() {
	c07Start(1)
	kind := vChoose("alg", 3)
	alg := []Algorithm{AlgorithmES256, AlgorithmES384, AlgorithmES512}[kind]
	c := vCurveByIndex(kind)
	n := refOrderSize(c)
	key := vECKeyValid("key", c)
	vAssume(vOnCurve(&key.PublicKey))
	ver, err := NewVerifier(alg, &key.PublicKey)
	vAssume(err == nil)
	prot, protContent := c03Protected("m", c07AlgEntry("m", alg))
	payload := vBlob("payload")
	ext := mkExternal("ext")
	abbreviated := vChoose("as", 2) == 1
	msig := vBlobN("msig", 1, 64)
	var tbs []byte
	if abbreviated {
		// countersignature0 over a COSE_Sign1 whose own signature is msig (RFC 9338 section 3.3)
		tbs = refSigStructure("CounterSignature0V2", [][]byte{protContent, {}}, ext, payload, []*vNodeT{nnBstr(msig, -1)})
	} else {
		tbs = refSigStructure("Signature1", [][]byte{protContent}, ext, payload, nil)
	}
	r, s := vEcdsaSign(key, vHash(refHashOfAlg(int64(alg)), tbs))
	good := append(refFixed(r, n), refFixed(s, n)...)
	var sig []byte
	mode := vChoose("mode", 7)
	switch mode {
	case 0:
		sig = good
	case 1:
		sig = append(append([]byte{}, good...), vBlobN("extra", 1, 4)...)
	case 2:
		sig = append([]byte{0}, good...)
	case 3:
		der, _ := asn1.Marshal(struct{ R, S *big.Int }{r, s})
		vAssume(len(der) != 2*n)
		sig = der
	case 4: // leading zero octets stripped from each half
		rb, sb := r.Bytes(), s.Bytes()
		vAssume(len(rb)+len(sb) != 2*n)
		sig = append(append([]byte{}, rb...), sb...)
	case 5:
		sig = good[:2*n-1]
	case 6: // both halves shortened by the same amount (still two equal halves)
		rb, sb := refFixed(r, n), refFixed(s, n)
		vAssume(rb[0] == 0 && sb[0] == 0)
		sig = append(append([]byte{}, rb[1:]...), sb[1:]...)
	}
	var res error
	if abbreviated {
		var m Sign1Message
		vAssume(m.UnmarshalCBOR(vSer(nnTag(18, nnArray([]*vNodeT{prot, nnMap(nil, 0), nnBstr(payload, -1), nnBstr(msig, -1)}, 0), 0))) == nil)
		res = VerifyCountersign0(ver, &m, ext, sig)
		if mode == 0 {
			vAssert("forms: the genuine fixed-width countersignature0 verifies", res == nil)
		} else {
			vAssert("forms: countersignature0 in any other spelling is refused", res != nil)
		}
		vReach("abbreviated")
		return
	}
	var m Sign1Message
	vAssume(m.UnmarshalCBOR(vSer(nnTag(18, nnArray([]*vNodeT{prot, nnMap(nil, 0), nnBstr(payload, vWidth("plw", uint64(len(payload)))), nnBstr(sig, vWidth("sigw", uint64(len(sig))))}, 0), 0))) == nil)
	res = m.Verify(ext, ver)
	if mode == 0 {
		vAssert("forms: the genuine fixed-width signature verifies", res == nil)
	} else {
		vAssert("forms: any other spelling of a genuine signature is refused", res == ErrVerification)
	}
	vReach("end")
}

// a genuinely signed COSE_Sign1 whose unprotected bucket is then edited at will (kid, unknown labels,
// an alg parameter of any value): the verdict is that of the protected header, external data and signature alone
func H_C03_unprotected_edits() {
	c07Start(1)
	rv := mkRefVerifier("v")
	hasAlg := vChoose("palg", 2) == 0
	var pairs []*vNodeT
	if hasAlg {
		pairs = c07AlgEntry("m", rv.alg)
	}
	prot, protContent := c03Protected("m", pairs)
	payload := vBlob("payload")
	ext := mkExternal("ext")
	sig := rv.sign(refSigStructure("Signature1", [][]byte{protContent}, ext, payload, nil))
	var unprot *vNodeT
	switch vChoose("edit", 4) {
	case 0:
		unprot = nnMap(nil, vWidth("uw", 0))
	case 1:
		_, unprot = mkLayer("m.u", 6, mkFaultPlan(0), 0)
	case 2:
		_, unprot = mkLayer("m.u", 7, mkFaultPlan(0), 0)
	case 3:
		mag := vUint64("ualg")
		vAssume(mag <= 1<<63-1)
		unprot = nnMap([]*vNodeT{nnInt(0, 1, -1), nnInt(vChoose("ualgsign", 2), mag, vWidth("ualgw", mag))}, -1)
	}
	var m Sign1Message
	vAssume(m.UnmarshalCBOR(vSer(nnTag(18, nnArray([]*vNodeT{prot, unprot, nnBstr(payload, vWidth("plw", uint64(len(payload)))), nnBstr(sig, vWidth("sigw", uint64(len(sig))))}, 0), 0))) == nil)
	res := m.Verify(ext, rv.ver)
	if hasAlg || len(ext) > 0 {
		vAssert("unprotected edits: the genuine signature still verifies", res == nil)
	} else {
		vAssert("unprotected edits: no protected alg and no external data stays an error", res != nil)
	}
	vReach("end")
}

// a genuine countersignature of one form offered as the other form over the same decoded COSE_Sign1 parent
// (empty countersigner protected bucket, so the two structures differ in the context string only)
func H_C03_countersign_forms() {
	c07Start(1)
	rv := mkRefVerifier("v")
	pprot, pcontent := c03Protected("parent", nil)
	payload := vBlob("payload")
	psig := vBlobN("parent.sig", 1, 64)
	ext := vBlobN("ext", 1, 64) // no alg anywhere: external data is required
	tbsFull := refSigStructure("CounterSignatureV2", [][]byte{pcontent, {}}, ext, payload, []*vNodeT{nnBstr(psig, -1)})
	tbsAbbr := refSigStructure("CounterSignature0V2", [][]byte{pcontent, {}}, ext, payload, []*vNodeT{nnBstr(psig, -1)})
	madeAsFull := vChoose("made.as", 2) == 0
	var sig []byte
	if madeAsFull {
		sig = rv.sign(tbsFull)
	} else {
		sig = rv.sign(tbsAbbr)
	}
	cs := nnArray([]*vNodeT{nnBstr([]byte{}, vWidth("cs.pw", 0)), nnMap(nil, 0), nnBstr(sig, -1)}, 0)
	unprot := nnMap([]*vNodeT{nnInt(0, 11, -1), cs}, -1)
	var m Sign1Message
	vAssume(m.UnmarshalCBOR(vSer(nnTag(18, nnArray([]*vNodeT{pprot, unprot, nnBstr(payload, -1), nnBstr(psig, -1)}, 0), 0))) == nil)
	got, ok := m.Headers.Unprotected[HeaderLabelCounterSignatureV2].(*Countersignature)
	vAssume(ok)
	resFull := got.Verify(rv.ver, &m, ext)
	resAbbr := VerifyCountersign0(rv.ver, &m, ext, sig)
	if madeAsFull {
		vAssert("forms: a full countersignature verifies as what it is", resFull == nil)
		if !rv.verdict(tbsAbbr, sig) {
			vAssert("forms: a full countersignature is not accepted as an abbreviated one", resAbbr != nil)
		}
	} else {
		vAssert("forms: an abbreviated countersignature verifies as what it is", resAbbr == nil)
		if !rv.verdict(tbsFull, sig) {
			vAssert("forms: an abbreviated countersignature is not accepted as a full one", resFull != nil)
		}
	}
	vReach("end")
}
