//go:build verif

package cose

import (
	"crypto/ecdsa"
	"crypto/ed25519"
	"crypto/elliptic"
)

func init() {
	vRegister("H_C14_ec_private", H_C14_ec_private)
	vRegister("H_C14_ec_public", H_C14_ec_public)
	vRegister("H_C14_okp", H_C14_okp)
	vRegister("H_C14_sign_verify", H_C14_sign_verify)
}

func refFieldSize(c elliptic.Curve) int {
	switch c.Params().Name {
	case "P-256":
		return 32
	case "P-384":
		return 48
	case "P-521":
		return 66
	}
	return -1
}

// keyParam: the value under a negative label -k of an encoded COSE_Key
func keyParam(m *vNodeT, k uint64) *vNodeT {
	for i := 0; i < nLen(m); i++ {
		if nMajor(nKey(m, i)) == 1 && nArg(nKey(m, i)) == k-1 {
			return nVal(m, i)
		}
	}
	return nil
}

func c14Extras(k *Key) {
	switch vChoose("extras", 4) {
	case 1:
		k.ID = vBlob("kid")
	case 2:
		k.Ops = []KeyOp{KeyOpSign, KeyOpVerify}
	case 3:
		k.BaseIV = vBlobN("biv", 1, 16)
		k.Params["extra"] = vInt64("extra")
	}
}

// private EC keys: every (X, Y, D), in particular with leading zero bytes
func H_C14_ec_private() {
	c := vCurve("curve")
	size := refFieldSize(c)
	sk := vECKeyValid("key", c) // a genuine pair: a consistency check between d and (x, y) would be legitimate
	k, err := NewKeyFromPrivate(sk)
	vAssert("ec: every in-range key converts to a COSE_Key", err == nil)
	if err != nil {
		return
	}
	c14Extras(k)
	b, err := k.MarshalCBOR()
	vAssert("ec: the key encodes", err == nil)
	if err != nil {
		return
	}
	m := vParse(b)
	ok := m != nil && nMajor(m) == 5
	vAssert("ec: encoded key is a map", ok)
	if !ok {
		return
	}
	x, y := keyParam(m, 2), keyParam(m, 3)
	if sk.X.Sign() != 0 {
		vAssert("ec: x has exactly the field size (leading zeros kept)", x != nil && nMajor(x) == 2 && len(nBytes(x)) == size)
	}
	if sk.Y.Sign() != 0 {
		vAssert("ec: y has exactly the field size (leading zeros kept)", y != nil && nMajor(y) == 2 && len(nBytes(y)) == size)
	}
	var k2 Key
	derr := k2.UnmarshalCBOR(b)
	vLogErr("decode", derr)
	vAssert("ec: the encoded key decodes", derr == nil)
	if derr != nil {
		return
	}
	if sk.X.Sign() == 0 || sk.Y.Sign() == 0 {
		vReach("degenerate coordinate")
		return
	}
	p2, perr := k2.PrivateKey()
	vLogErr("PrivateKey", perr)
	vAssert("ec: the decoded key converts back", perr == nil)
	if perr != nil {
		return
	}
	sk2, isEC := p2.(*ecdsa.PrivateKey)
	vAssert("ec: private key type", isEC)
	if !isEC {
		return
	}
	vAssert("ec: curve preserved", sk2.Curve == c)
	vAssert("ec: X preserved", sk2.X.Cmp(sk.X) == 0)
	vAssert("ec: Y preserved", sk2.Y.Cmp(sk.Y) == 0)
	vAssert("ec: D preserved", sk2.D.Cmp(sk.D) == 0)
	pub2, puberr := k2.PublicKey()
	vAssert("ec: public half converts back", puberr == nil)
	if puberr == nil {
		pk2, ok := pub2.(*ecdsa.PublicKey)
		vAssert("ec: public key type and value", ok && pk2.Curve == c && pk2.X.Cmp(sk.X) == 0 && pk2.Y.Cmp(sk.Y) == 0)
	}
	vReach("end")
}

func H_C14_ec_public() {
	c := vCurve("curve")
	size := refFieldSize(c)
	sk := vECKeyValid("key", c)
	vAssume(sk.X.Sign() != 0)
	vAssume(sk.Y.Sign() != 0)
	k, err := NewKeyFromPublic(&sk.PublicKey)
	vAssert("ecpub: every in-range public key converts", err == nil)
	if err != nil {
		return
	}
	b, err := k.MarshalCBOR()
	vAssert("ecpub: encodes", err == nil)
	if err != nil {
		return
	}
	m := vParse(b)
	if m != nil && nMajor(m) == 5 {
		x, y := keyParam(m, 2), keyParam(m, 3)
		vAssert("ecpub: x full length", x != nil && len(nBytes(x)) == size)
		vAssert("ecpub: y full length", y != nil && len(nBytes(y)) == size)
		vAssert("ecpub: no private material", keyParam(m, 4) == nil)
	}
	var k2 Key
	vAssert("ecpub: decodes", k2.UnmarshalCBOR(b) == nil)
	pub2, perr := k2.PublicKey()
	vAssert("ecpub: converts back", perr == nil)
	if perr == nil {
		pk2, ok := pub2.(*ecdsa.PublicKey)
		vAssert("ecpub: equal key", ok && pk2.Curve == c && pk2.X.Cmp(sk.X) == 0 && pk2.Y.Cmp(sk.Y) == 0)
	}
	_, nopriv := k2.PrivateKey()
	vAssert("ecpub: a public key yields no private key", nopriv != nil)
	vReach("end")
}

func H_C14_okp() {
	sk := vEdKey("key")
	private := vChoose("private", 2) == 0
	var k *Key
	var err error
	if private {
		k, err = NewKeyFromPrivate(sk)
	} else {
		k, err = NewKeyFromPublic(sk.Public())
	}
	vAssert("okp: converts", err == nil)
	if err != nil {
		return
	}
	c14Extras(k)
	b, err := k.MarshalCBOR()
	vAssert("okp: encodes", err == nil)
	if err != nil {
		return
	}
	var k2 Key
	vAssert("okp: decodes", k2.UnmarshalCBOR(b) == nil)
	pub2, perr := k2.PublicKey()
	vAssert("okp: public converts back", perr == nil)
	if perr == nil {
		pk, ok := pub2.(ed25519.PublicKey)
		vAssert("okp: public key bytes preserved", ok && vRopeEq(pk, sk[32:]))
	}
	if private {
		p2, e2 := k2.PrivateKey()
		vAssert("okp: private converts back", e2 == nil)
		if e2 == nil {
			s2, ok := p2.(ed25519.PrivateKey)
			vAssert("okp: private key bytes preserved", ok && vRopeEq(s2, sk))
		}
	}
	vReach("end")
}

// a signer built from a COSE_Key and the verifier built from its public counterpart agree
func H_C14_sign_verify() {
	var priv, pub *Key
	var err error
	if vChoose("family", 2) == 0 {
		c := vCurve("curve")
		sk := vECKeyValid("key", c)
		vAssume(vOnCurve(&sk.PublicKey))
		vAssume(sk.X.Sign() != 0)
		vAssume(sk.Y.Sign() != 0)
		priv, err = NewKeyFromPrivate(sk)
		vAssume(err == nil)
		pub, err = NewKeyFromPublic(&sk.PublicKey)
		vAssume(err == nil)
	} else {
		sk := vEdKey("key")
		priv, err = NewKeyFromPrivate(sk)
		vAssume(err == nil)
		pub, err = NewKeyFromPublic(sk.Public())
		vAssume(err == nil)
	}
	// with and without key_ops (the private half may sign, the public half may verify)
	withOps := vChoose("ops", 3)
	if withOps >= 1 {
		priv.Ops = []KeyOp{KeyOpSign}
	}
	if withOps == 2 {
		pub.Ops = []KeyOp{KeyOpVerify}
	}
	// over the wire
	bp, e1 := priv.MarshalCBOR()
	bq, e2 := pub.MarshalCBOR()
	vAssume(e1 == nil && e2 == nil)
	var kp, kq Key
	if vChoose("batch", 2) == 1 {
		// a batch parsed through one reused variable, each result copied out
		var k Key
		vAssume(k.UnmarshalCBOR(bp) == nil)
		kp = k
		vAssume(k.UnmarshalCBOR(bq) == nil)
		kq = k
	} else {
		vAssume(kp.UnmarshalCBOR(bp) == nil)
		vAssume(kq.UnmarshalCBOR(bq) == nil)
	}
	signer, serr := kp.Signer()
	vLogErr("Signer", serr)
	vAssert("keys: the decoded private key yields a signer", serr == nil)
	verifier, verr := kq.Verifier()
	vLogErr("Verifier", verr)
	vAssert("keys: the decoded public key yields a verifier", verr == nil)
	if serr != nil || verr != nil {
		return
	}
	vAssert("keys: signer and verifier agree on the algorithm", signer.Algorithm() == verifier.Algorithm())
	content := vBlob("content")
	sig, e := signer.Sign(vRand(), content)
	if e != nil {
		vReach("sign failed")
		return
	}
	vAssert("keys: the verifier from the public COSE_Key accepts the signer's signature", verifier.Verify(content, sig) == nil)
	vReach("end")
}
