//go:build verif

package cose

// Symbolic wire trees: arbitrary items, conforming COSE structures with
// arbitrary encoder choices, fault injection at chosen positions, and the
// RFC 9052 shape / header predicates over trees (the oracle of C05/C06/C07).

// mkAny: an arbitrary CBOR data item. d <= 0: leaves of every major type
// (all argument values and head widths symbolic); d >= 1 adds containers,
// tags and indefinite-length forms around one leaf each (thorough tier: two
// array elements / arbitrary map value).
func mkAny(name string, d int) *vNodeT {
	nk := 14
	if d <= 0 {
		nk = 9 // leaves only
	}
	switch vChoose(name+".k", nk) {
	case 0, 1:
		sign := vChoose(name+".sign", 2)
		mag := vUint64(name + ".mag")
		return nnInt(sign, mag, vWidth(name+".w", mag))
	case 2:
		// content: bytes that are not a CBOR item (protected-header positions look inside)
		b := vGarbage(name+".b", 0, 1<<20)
		return nnBstr(b, vWidth(name+".w", uint64(len(b))))
	case 3:
		s := vStr(name+".s", 2)
		return nnTstr(s, vWidth(name+".w", uint64(len(s))))
	case 4: // simple values incl. false/true/null/undefined, 1- and 2-byte forms
		v := vUint64(name + ".sv")
		w := vChoose(name+".sw", 2)
		if w == 0 {
			vAssume(v < 24)
		} else {
			vAssume(v < 256)
		}
		return nnSimple(v, w)
	case 5: // floats
		return nnSimple(vUint64(name+".f"), []int{2, 4, 8}[vChoose(name+".fw", 3)])
	case 6:
		return nnIndef(nnBstr(vGarbage(name+".ib", 0, 100), -1))
	case 7:
		return nnArray(nil, vWidth(name+".w", 0))
	case 8:
		return nnMap(nil, vWidth(name+".w", 0))
	case 9:
		kids := []*vNodeT{mkAny(name+".a", d-1)}
		if vTier() == 1 && vChoose(name+".n", 2) == 1 {
			kids = append(kids, mkAny(name+".b", 0))
		}
		return nnArray(kids, vWidth(name+".w", uint64(len(kids))))
	case 10:
		var val *vNodeT
		if vTier() == 1 {
			val = mkAny(name+".mv", 0)
		} else {
			x := vUint64(name + ".mvu")
			val = nnInt(0, x, vWidth(name+".mvw", x))
		}
		return nnMap([]*vNodeT{mkAny(name+".mk", 0), val}, vWidth(name+".w", 1))
	case 11:
		num := vUint64(name + ".tag")
		vAssume(vOr(num > 3, num == 1000)) // built-in tags 0..3 are outside the modelled data model
		vAssume(num != 55799)
		return nnTag(num, mkAny(name+".tc", d-1), vWidth(name+".w", num))
	case 12:
		x := vUint64(name + ".iau")
		return nnIndef(nnArray([]*vNodeT{nnInt(0, x, vWidth(name+".iaw", x))}, -1))
	}
	x := vUint64(name + ".imu")
	return nnIndef(nnMap([]*vNodeT{nnInt(0, x, -1), nnInt(0, x, -1)}, -1))
}

// ---- predicates over trees ---------------------------------------------------------------------------------

func tIsInt64Label(k *vNodeT) bool {
	return (nMajor(k) == 0 || nMajor(k) == 1) && nArg(k) <= 1<<63-1
}

func tLabelOf(k *vNodeT) specLabel {
	switch nMajor(k) {
	case 0:
		if nArg(k) > 1<<63-1 {
			return specLabel{bad: true, isInt: true}
		}
		return specLabel{isInt: true, i: int64(nArg(k))}
	case 1:
		if nArg(k) > 1<<63-1 {
			return specLabel{bad: true, isInt: true}
		}
		return specLabel{isInt: true, i: -1 - int64(nArg(k))}
	case 3:
		if nIsIndef(k) {
			return specLabel{bad: true}
		}
		return specLabel{s: string(nBytes(k))}
	}
	return specLabel{bad: true}
}

// tNoIndefNoTag: no indefinite-length item (and, if !tagsOK, no tag) anywhere in the item; bstr contents are opaque
func tClean(n *vNodeT, tagsOK bool) bool {
	if nIsIndef(n) {
		return false
	}
	switch nMajor(n) {
	case 6:
		if !tagsOK {
			return false
		}
		return tClean(nChild(n, 0), tagsOK)
	case 4:
		for i := 0; i < nLen(n); i++ {
			if !tClean(nChild(n, i), tagsOK) {
				return false
			}
		}
	case 5:
		for i := 0; i < nLen(n); i++ {
			if !tClean(nKey(n, i), tagsOK) || !tClean(nVal(n, i), tagsOK) {
				return false
			}
		}
	}
	return true
}

// tIsCountersignature: [bstr protected, map unprotected, bstr signature] obeying all rules
func tIsCountersignature(n *vNodeT, depth int) bool {
	if nMajor(n) != 4 || nIsIndef(n) || nLen(n) != 3 || depth > 3 {
		return false
	}
	sig := nChild(n, 2)
	if nMajor(sig) != 2 || nIsIndef(sig) || len(nBytes(sig)) == 0 {
		return false
	}
	return tProtectedOK(nChild(n, 0), depth) && tHeaderMapOK(nChild(n, 1), false, depth) && !tIVClash(nChild(n, 0), nChild(n, 1))
}

func tEntryOf(k, v *vNodeT, depth int) specEntry {
	e := specEntry{label: tLabelOf(k)}
	switch nMajor(v) {
	case 0:
		e.kind = skUint
	case 1:
		e.kind = skNint
	case 2:
		e.kind = skBstr
	case 3:
		e.kind = skTstr
		e.str = string(nBytes(v))
	case 4:
		e.kind = skArray
		if tIsCountersignature(v, depth+1) {
			e.kind = skCsig
		} else if nLen(v) > 0 {
			all := true
			for i := 0; i < nLen(v); i++ {
				if !tIsCountersignature(nChild(v, i), depth+1) {
					all = false
				}
			}
			if all {
				e.kind = skCsigList
			}
		}
		if e.kind == skArray {
			for i := 0; i < nLen(v); i++ {
				e.arr = append(e.arr, tLabelOf(nChild(v, i)))
			}
		}
	case 5:
		e.kind = skMap
	case 7:
		switch {
		case nWidth(v) >= 2:
			e.kind = skFloat
		case nArg(v) == 20 || nArg(v) == 21:
			e.kind = skBool
		case nArg(v) == 22 || nArg(v) == 23:
			e.kind = skNil
		default:
			e.kind = skOther
		}
	default:
		e.kind = skOther
	}
	return e
}

// tHeaderMapOK: a header_map obeying the label, uniqueness and RFC 9052 3.1 rules
func tHeaderMapOK(m *vNodeT, protected bool, depth int) bool {
	// tags: the library allows them inside the protected bstr (opaque to the
	// envelope scan) and refuses them in the envelope; a header bucket decoded on
	// its own has no envelope (tTagsInStandaloneBucket)
	if nMajor(m) != 5 || !tClean(m, protected || tTagsInStandaloneBucket) {
		return false
	}
	var es []specEntry
	for i := 0; i < nLen(m); i++ {
		es = append(es, tEntryOf(nKey(m, i), nVal(m, i), depth))
	}
	return specHeaderOK(es, protected)
}

var tTagsInStandaloneBucket bool

// tProtectedOK: a bstr that is empty or wraps exactly one header map
func tProtectedOK(p *vNodeT, depth int) bool {
	if nMajor(p) != 2 || nIsIndef(p) {
		return false
	}
	c := nBytes(p)
	if len(c) == 0 {
		return true
	}
	m := vParse(c)
	if m == nil {
		return false
	}
	return tHeaderMapOK(m, true, depth)
}

func tIVClash(p, u *vNodeT) bool {
	c := nBytes(p)
	if len(c) == 0 {
		return false
	}
	m := vParse(c)
	if m == nil || nMajor(m) != 5 || nMajor(u) != 5 {
		return false
	}
	has := func(x *vNodeT, l uint64) bool {
		for i := 0; i < nLen(x); i++ {
			if nMajor(nKey(x, i)) == 0 && nArg(nKey(x, i)) == l {
				return true
			}
		}
		return false
	}
	return (has(m, 5) && has(u, 6)) || (has(m, 6) && has(u, 5))
}

func tPayloadOK(p *vNodeT) bool {
	if nMajor(p) == 2 {
		return !nIsIndef(p)
	}
	return nMajor(p) == 7 && nWidth(p) == 0 && nArg(p) == 22
}

// tSign1BodyOK: the 4-array of a COSE_Sign1
func tSign1BodyOK(a *vNodeT) bool {
	if nMajor(a) != 4 || nIsIndef(a) || nLen(a) != 4 || nWidth(a) != 0 {
		return false
	}
	sig := nChild(a, 3)
	if nMajor(sig) != 2 || nIsIndef(sig) || len(nBytes(sig)) == 0 {
		return false
	}
	return tProtectedOK(nChild(a, 0), 0) && tHeaderMapOK(nChild(a, 1), false, 0) && tPayloadOK(nChild(a, 2)) &&
		!tIVClash(nChild(a, 0), nChild(a, 1)) && tClean(a, false)
}

func tSignatureOK(s *vNodeT) bool {
	if nWidth(s) != 0 {
		return false
	}
	return tIsCountersignature(s, 0) && !tIVClash(nChild(s, 0), nChild(s, 1)) && tClean(s, false)
}

func tSignBodyOK(a *vNodeT) bool {
	if nMajor(a) != 4 || nIsIndef(a) || nLen(a) != 4 || nWidth(a) != 0 {
		return false
	}
	sigs := nChild(a, 3)
	if nMajor(sigs) != 4 || nIsIndef(sigs) || nLen(sigs) == 0 {
		return false
	}
	for i := 0; i < nLen(sigs); i++ {
		if !tSignatureOK(nChild(sigs, i)) {
			return false
		}
	}
	return tProtectedOK(nChild(a, 0), 0) && tHeaderMapOK(nChild(a, 1), false, 0) && tPayloadOK(nChild(a, 2)) &&
		!tIVClash(nChild(a, 0), nChild(a, 1)) && tClean(a, false)
}

// ---- conforming structures with fault injection ---------------------------------------------------------------

// faultPlan: up to `budget` positions (numbered in generation order) have their
// conforming content replaced by an arbitrary item. Chosen lazily, so the
// number of paths is C(positions, <= budget).
type faultPlan struct {
	budget int
	next   int
	used   int
}

func mkFaultPlan(budget int) *faultPlan { return &faultPlan{budget: budget} }

func (fp *faultPlan) at() bool {
	p := fp.next
	fp.next++
	if fp.used >= fp.budget {
		return false
	}
	if vChoose("fault@"+vItoa(p), 2) == 1 {
		fp.used++
		return true
	}
	return false
}

func vItoa(i int) string {
	if i < 10 {
		return string(rune('0' + i))
	}
	return string(rune('0'+i/10)) + string(rune('0'+i%10))
}

func (fp *faultPlan) node(name string, conforming func() *vNodeT) *vNodeT {
	if fp.at() {
		return mkAny("fault."+name, 1)
	}
	return conforming()
}

const nLayerFeatures = 14

// mkLayer: protected bstr and unprotected map of one layer: a minimal
// conforming skeleton plus ONE feature that exercises a rule (one-hot, to keep
// the number of shapes linear); every key, value and wrapper is a fault position.
func mkLayer(name string, feature int, fp *faultPlan, depth int) (*vNodeT, *vNodeT) {
	var pp, up []*vNodeT
	add := func(dst *[]*vNodeT, label uint64, val func() *vNodeT) {
		idx := vItoa(len(*dst) / 2)
		k := fp.node(name+".key"+idx, func() *vNodeT { return nnInt(0, label, vWidth(name+".kw"+idx, label)) })
		v := fp.node(name+".val"+idx, val)
		*dst = append(*dst, k, v)
	}
	bs := func(s string) func() *vNodeT {
		return func() *vNodeT {
			b := vBlob(name + "." + s)
			return nnBstr(b, vWidth(name+"."+s+".w", uint64(len(b))))
		}
	}
	wrapEmpty := false
	switch feature {
	case 1:
		wrapEmpty = true
	case 2:
		add(&pp, 1, func() *vNodeT {
			mag := vUint64(name + ".alg")
			vAssume(mag <= 1<<63-1)
			return nnInt(1, mag, vWidth(name+".algw", mag))
		})
	case 3:
		add(&pp, 4, bs("kid"))
		l := vUint64(name + ".ul")
		vAssume(vAnd(l > 300, l <= 1<<63-1))
		add(&pp, l, bs("uv"))
	case 4:
		add(&pp, 2, func() *vNodeT { return nnArray([]*vNodeT{nnInt(0, 4, -1)}, -1) })
		add(&pp, 4, bs("kid"))
	case 5:
		add(&pp, 3, func() *vNodeT {
			ct := vUint64(name + ".ct")
			vAssume(ct <= 1<<63-1)
			return nnInt(0, ct, vWidth(name+".ctw", ct))
		})
		add(&pp, 5, bs("iv"))
	case 6:
		add(&up, 4, bs("kid"))
	case 7:
		add(&up, 6, bs("piv"))
		l := vUint64(name + ".ul")
		vAssume(vAnd(l > 300, l <= 1<<63-1))
		add(&up, l, func() *vNodeT { return nnTstr("text", -1) })
	case 8:
		if depth < 2 {
			add(&up, 11, func() *vNodeT { return mkCountersig(name+".cs", 2, fp, depth+1) })
		}
	case 9:
		if depth < 2 {
			add(&up, 7, func() *vNodeT {
				return nnArray([]*vNodeT{mkCountersig(name+".cs0", 0, fp, depth+1), mkCountersig(name+".cs1", 6, fp, depth+1)}, -1)
			})
			add(&up, 9, bs("cs0"))
		}
	case 10:
		if depth < 1 {
			add(&up, 11, func() *vNodeT { return mkCountersig(name+".cs", 8, fp, depth+1) })
		}
	case 11: // IV and Partial IV split over the two buckets of one layer (each well-typed on its own)
		add(&pp, 5, bs("iv"))
		add(&up, 6, bs("piv"))
	case 12:
		add(&pp, 6, bs("piv"))
		add(&up, 5, bs("iv"))
	case 13: // the same split inside a nested countersignature
		if depth < 2 {
			add(&up, 11, func() *vNodeT { return mkCountersig(name+".cs", 11, fp, depth+1) })
		}
	}
	prot := fp.node(name+".prot", func() *vNodeT {
		var content []byte
		if len(pp) > 0 || wrapEmpty {
			content = vSer(nnMap(pp, vWidth(name+".pmw", uint64(len(pp)/2))))
			if fp.at() { // trailing bytes inside the protected bstr
				content = append(content, vBlobN(name+".ptrail", 1, 8)...)
			}
		} else {
			content = []byte{}
		}
		return nnBstr(content, vWidth(name+".pbw", uint64(len(content))))
	})
	unprot := fp.node(name+".unprot", func() *vNodeT { return nnMap(up, vWidth(name+".umw", uint64(len(up)/2))) })
	return prot, unprot
}

func mkCountersig(name string, feature int, fp *faultPlan, depth int) *vNodeT {
	p, u := mkLayer(name, feature, fp, depth)
	s := fp.node(name+".sig", func() *vNodeT {
		b := vBlobN(name+".sigb", 1, 200)
		return nnBstr(b, vWidth(name+".sigw", uint64(len(b))))
	})
	return nnArray([]*vNodeT{p, u, s}, 0)
}

func mkConfPayload(name string, fp *faultPlan) *vNodeT {
	return fp.node(name, func() *vNodeT {
		if vChoose(name+".nil", 2) == 1 {
			return nnSimple(22, 0)
		}
		b := vBlob(name + ".b")
		return nnBstr(b, vWidth(name+".w", uint64(len(b))))
	})
}

// mkSign1Body: the 4-array of a COSE_Sign1 (arity and head form can be faulted)
func mkSign1Body(name string, feature int, fp *faultPlan) *vNodeT {
	p, u := mkLayer(name, feature, fp, 0)
	pl := mkConfPayload(name+".payload", fp)
	s := fp.node(name+".sig", func() *vNodeT {
		b := vBlobN(name+".sigb", 1, 200)
		return nnBstr(b, vWidth(name+".sigw", uint64(len(b))))
	})
	kids := []*vNodeT{p, u, pl, s}
	if fp.at() { // wrong arity / indefinite array
		switch vChoose(name+".arity", 3) {
		case 0:
			kids = kids[:3]
		case 1:
			kids = append(kids, mkAny(name+".extra", 0))
		case 2:
			return nnIndef(nnArray(kids, -1))
		}
	}
	w := 0
	if fp.at() {
		w = vWidth(name+".aw", uint64(len(kids))) // possibly non-shortest array head
	}
	return nnArray(kids, w)
}
