//go:build verif

package cose

import (
	"crypto"
	"crypto/ecdsa"
	"encoding/asn1"
	"errors"
	"io"
	"math/big"
)

func init() {
	vRegister("H_C16_encode", H_C16_encode)
	vRegister("H_C16_encode_range", H_C16_encode_range)
	vRegister("H_C16_cryptosigner", H_C16_cryptosigner)
	vRegister("H_C16_verify", H_C16_verify)
	vRegister("H_C16_verify_exact", H_C16_verify_exact)
}

// every (r,s) in [1,N-1]^2 on every curve is encoded as fixed-width r||s
func H_C16_encode() {
	c := vCurve("curve")
	n := refOrderSize(c)
	N := c.Params().N
	r, s := vBig("r", 528), vBig("s", 528)
	vAssume(r.Sign() > 0)
	vAssume(s.Sign() > 0)
	vAssume(r.Cmp(N) < 0)
	vAssume(s.Cmp(N) < 0)
	sig, err := encodeECDSASignature(c, r, s)
	vAssert("encode: no error for in-range (r,s)", err == nil)
	vAssert("encode: length is 2*ceil(bitlen(N)/8)", len(sig) == 2*n)
	vAssume(len(sig) == 2*n)
	vAssert("encode: first half is r, big endian, left padded", new(big.Int).SetBytes(sig[:n]).Cmp(r) == 0)
	vAssert("encode: second half is s, big endian, left padded", new(big.Int).SetBytes(sig[n:]).Cmp(s) == 0)
	// decoding gives the same integers back
	r2, s2, err2 := decodeECDSASignature(c, sig)
	vAssert("decode: no error on own output", err2 == nil)
	vAssume(err2 == nil)
	vAssert("decode: r round trip", r2.Cmp(r) == 0)
	vAssert("decode: s round trip", s2.Cmp(s) == 0)
	vReach("end")
}

// integers that do not fit n bytes (or are negative) give an error and no bytes
func H_C16_encode_range() {
	c := vCurve("curve")
	n := refOrderSize(c)
	r, s := vBigSigned("r", 600), vBigSigned("s", 600)
	sig, err := encodeECDSASignature(c, r, s)
	fitsR := r.Sign() >= 0 && r.BitLen() <= 8*n
	fitsS := s.Sign() >= 0 && s.BitLen() <= 8*n
	if fitsR && fitsS {
		vAssert("range: fitting integers are encoded", err == nil)
		vAssert("range: length 2n", len(sig) == 2*n)
	} else {
		vAssert("range: negative / oversized integer is an error", err != nil)
		vAssert("range: no bytes with an error", sig == nil)
	}
	vReach("end")
}

// a foreign crypto.Signer returning ASN.1 for arbitrary integers
type spyCryptoSigner struct {
	pub   crypto.PublicKey
	r, s  *big.Int
	fail  bool
	calls int
}

var errSpy = errors.New("spy: injected failure")

func (k *spyCryptoSigner) Public() crypto.PublicKey { return k.pub }
func (k *spyCryptoSigner) Sign(rand io.Reader, digest []byte, opts crypto.SignerOpts) ([]byte, error) {
	k.calls++
	if k.fail {
		return nil, errSpy
	}
	return asn1.Marshal(struct{ R, S *big.Int }{k.r, k.s})
}

func H_C16_cryptosigner() {
	c := vCurve("curve")
	n := refOrderSize(c)
	algs := []Algorithm{AlgorithmES256, AlgorithmES384, AlgorithmES512}
	alg := algs[vChoose("alg", 3)]
	key := vECKey("key", c)
	spy := &spyCryptoSigner{pub: &key.PublicKey, r: vBigSigned("R", 600), s: vBigSigned("S", 600), fail: vBool("fail")}
	signer, err := NewSigner(alg, spy)
	vAssert("NewSigner accepts a foreign crypto.Signer with an ECDSA public key", err == nil)
	vAssume(err == nil)
	sig, err := signer.Sign(nil, vBlob("content"))
	if spy.fail {
		vAssert("signer failure is returned", err == errSpy)
		vAssert("no bytes on failure", sig == nil)
		vReach("failed")
		return
	}
	fits := spy.r.Sign() >= 0 && spy.s.Sign() >= 0 && spy.r.BitLen() <= 8*n && spy.s.BitLen() <= 8*n
	if !fits {
		vAssert("asn1 path: out-of-range integers are an error", err != nil)
		vAssert("asn1 path: no bytes with an error", sig == nil)
		vReach("out of range")
		return
	}
	vAssert("asn1 path: no error", err == nil)
	vAssert("asn1 path: length 2n", len(sig) == 2*n)
	vAssume(len(sig) == 2*n)
	vAssert("asn1 path: r half", new(big.Int).SetBytes(sig[:n]).Cmp(spy.r) == 0)
	vAssert("asn1 path: s half", new(big.Int).SetBytes(sig[n:]).Cmp(spy.s) == 0)
	// byte compatible with the native-key path, which goes through encodeECDSASignature
	ref, err2 := encodeECDSASignature(c, spy.r, spy.s)
	vAssume(err2 == nil)
	vAssert("asn1 path is byte-compatible with the native path", vRopeEq(sig, ref))
	vReach("end")
}

// the verifier accepts only the exact 2n-byte form
func H_C16_verify() {
	c := vCurve("curve")
	n := refOrderSize(c)
	algs := []Algorithm{AlgorithmES256, AlgorithmES384, AlgorithmES512}
	algI := vChoose("alg", 3)
	alg := algs[algI]
	key := vECKey("key", c)
	verifier, err := NewVerifier(alg, &key.PublicKey)
	vAssume(err == nil)
	content := vBlob("content")
	sig := vBlobN("sig", 0, 140)
	res := verifier.Verify(content, sig)
	if len(sig) != 2*n {
		vAssert("verify: wrong length is ErrVerification", res == ErrVerification)
		vReach("wrong length")
		return
	}
	digest := vHash(refHashOfAlg(int64(alg)), content)
	r := new(big.Int).SetBytes(sig[:n])
	s := new(big.Int).SetBytes(sig[n:])
	ok := vEcdsaVerdict(&key.PublicKey, digest, r, s)
	if ok {
		vAssert("verify: valid signature accepted", res == nil)
	} else {
		vAssert("verify: invalid signature is ErrVerification", res == ErrVerification)
	}
	vReach("end")
	var _ *ecdsa.PublicKey
}

// refFixed: big-endian, left padded to n bytes (RFC 8017 I2OSP), written with
// stdlib calls only.
func refFixed(x *big.Int, n int) []byte {
	b := x.Bytes()
	out := make([]byte, n-len(b), n)
	return append(out, b...)
}

// a genuine signature verifies only in its exact 2n-byte form
func H_C16_verify_exact() {
	c := vCurve("curve")
	n := refOrderSize(c)
	algs := []Algorithm{AlgorithmES256, AlgorithmES384, AlgorithmES512}
	alg := algs[vChoose("alg", 3)]
	key := vECKeyValid("key", c)
	verifier, err := NewVerifier(alg, &key.PublicKey)
	vAssume(err == nil)
	content := vBlob("content")
	digest := vHash(refHashOfAlg(int64(alg)), content)
	r, s := vEcdsaSign(key, digest)
	good := append(refFixed(r, n), refFixed(s, n)...)
	var sig []byte
	mode := vChoose("mode", 6)
	switch mode {
	case 0:
		sig = good
	case 1: // trailing bytes
		sig = append(append([]byte{}, good...), vBlobN("extra", 1, 4)...)
	case 2: // extra leading zero
		sig = append([]byte{0}, good...)
	case 3: // DER
		der, _ := asn1.Marshal(struct{ R, S *big.Int }{r, s})
		vAssume(len(der) != 2*n)
		sig = der
	case 4: // minimal-length halves (leading zeros stripped), only when that changes something
		rb, sb := r.Bytes(), s.Bytes()
		vAssume(len(rb)+len(sb) != 2*n)
		sig = append(append([]byte{}, rb...), sb...)
	case 5: // truncated
		sig = good[:2*n-1]
	}
	res := verifier.Verify(content, sig)
	if mode == 0 {
		vAssert("exact: a genuine signature in fixed-width form verifies", res == nil)
	} else {
		vAssert("exact: any other form of a genuine signature is ErrVerification", res == ErrVerification)
	}
	vReach("end")
}
