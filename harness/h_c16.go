//go:build verif

package cose

import (
	"crypto"
	"crypto/ecdsa"
	"encoding/asn1"
	"errors"
	"io"
	"math/big"
)

func init() {
	vRegister("H_C16_native_signer", H_C16_native_signer)
	vRegister("H_C16_cryptosigner", H_C16_cryptosigner)
	vRegister("H_C16_verify", H_C16_verify)
	vRegister("H_C16_verify_exact", H_C16_verify_exact)
}

// native keys through the public API: any ES algorithm with a key on any of the three curves produces
// 2n bytes (n from the key's curve order) whose halves are the primitive's (r, s), and its own verifier accepts them
func H_C16_native_signer() {
	c := vCurve("curve")
	n := refOrderSize(c)
	alg := []Algorithm{AlgorithmES256, AlgorithmES384, AlgorithmES512}[vChoose("alg", 3)]
	key := vECKeyValid("key", c)
	vAssume(vOnCurve(&key.PublicKey))
	signer, err := NewSigner(alg, key)
	vAssert("native: NewSigner accepts every ES algorithm with every NIST key", err == nil)
	vAssume(err == nil)
	content := vBlob("content")
	sig, err := signer.Sign(vRand(), content)
	if err != nil {
		vAssert("native: no bytes with an error", sig == nil)
		vReach("sign failed")
		return
	}
	vAssert("native: signature is 2n bytes, n from the curve order", len(sig) == 2*n)
	vAssume(len(sig) == 2*n)
	digest := vHash(refHashOfAlg(int64(alg)), content)
	vAssert("native: the halves are the (r, s) the primitive produced", vEcdsaVerdict(&key.PublicKey, digest, new(big.Int).SetBytes(sig[:n]), new(big.Int).SetBytes(sig[n:])))
	verifier, verr := NewVerifier(alg, &key.PublicKey)
	vAssume(verr == nil)
	vAssert("native: the matching verifier accepts it", verifier.Verify(content, sig) == nil)
	vReach("end")
}

// a foreign crypto.Signer returning ASN.1 for arbitrary integers
type spyCryptoSigner struct {
	pub   crypto.PublicKey
	r, s  *big.Int
	fail  bool
	calls int
}

var errSpy = errors.New("spy: injected failure")

func (k *spyCryptoSigner) Public() crypto.PublicKey { return k.pub }
func (k *spyCryptoSigner) Sign(rand io.Reader, digest []byte, opts crypto.SignerOpts) ([]byte, error) {
	k.calls++
	if k.fail {
		return nil, errSpy
	}
	return asn1.Marshal(struct{ R, S *big.Int }{k.r, k.s})
}

func H_C16_cryptosigner() {
	c := vCurve("curve")
	n := refOrderSize(c)
	algs := []Algorithm{AlgorithmES256, AlgorithmES384, AlgorithmES512}
	alg := algs[vChoose("alg", 3)]
	key := vECKey("key", c)
	spy := &spyCryptoSigner{pub: &key.PublicKey, r: vBigSigned("R", 600), s: vBigSigned("S", 600), fail: vBool("fail")}
	signer, err := NewSigner(alg, spy)
	vAssert("NewSigner accepts a foreign crypto.Signer with an ECDSA public key", err == nil)
	vAssume(err == nil)
	sig, err := signer.Sign(nil, vBlob("content"))
	if spy.fail {
		vAssert("signer failure is returned", err == errSpy)
		vAssert("no bytes on failure", sig == nil)
		vReach("failed")
		return
	}
	fits := spy.r.Sign() >= 0 && spy.s.Sign() >= 0 && spy.r.BitLen() <= 8*n && spy.s.BitLen() <= 8*n
	if !fits {
		vAssert("asn1 path: out-of-range integers are an error", err != nil)
		vAssert("asn1 path: no bytes with an error", sig == nil)
		vReach("out of range")
		return
	}
	vAssert("asn1 path: no error", err == nil)
	vAssert("asn1 path: length 2n", len(sig) == 2*n)
	vAssume(len(sig) == 2*n)
	vAssert("asn1 path: r half", new(big.Int).SetBytes(sig[:n]).Cmp(spy.r) == 0)
	vAssert("asn1 path: s half", new(big.Int).SetBytes(sig[n:]).Cmp(spy.s) == 0)
	// byte for byte the RFC 8152 section 8.1 form (reference written with stdlib calls only)
	vAssert("asn1 path: output is I2OSP(r,n) || I2OSP(s,n)", vRopeEq(sig, append(refFixed(spy.r, n), refFixed(spy.s, n)...)))
	vReach("end")
}

// the verifier accepts only the exact 2n-byte form
func H_C16_verify() {
	c := vCurve("curve")
	n := refOrderSize(c)
	algs := []Algorithm{AlgorithmES256, AlgorithmES384, AlgorithmES512}
	algI := vChoose("alg", 3)
	alg := algs[algI]
	key := vECKey("key", c)
	verifier, err := NewVerifier(alg, &key.PublicKey)
	vAssume(err == nil)
	content := vBlob("content")
	sig := vBlobN("sig", 0, 140)
	var res error
	if vChoose("entry", 2) == 0 {
		res = verifier.Verify(content, sig)
	} else {
		dv, isDV := verifier.(DigestVerifier)
		vAssume(isDV)
		res = dv.VerifyDigest(vHash(refHashOfAlg(int64(alg)), content), sig)
	}
	if len(sig) != 2*n {
		vAssert("verify: wrong length is ErrVerification", res == ErrVerification)
		vReach("wrong length")
		return
	}
	digest := vHash(refHashOfAlg(int64(alg)), content)
	r := new(big.Int).SetBytes(sig[:n])
	s := new(big.Int).SetBytes(sig[n:])
	ok := vEcdsaVerdict(&key.PublicKey, digest, r, s)
	if ok {
		vAssert("verify: valid signature accepted", res == nil)
	} else {
		vAssert("verify: invalid signature is ErrVerification", res == ErrVerification)
	}
	vReach("end")
	var _ *ecdsa.PublicKey
}

// refFixed: big-endian, left padded to n bytes (RFC 8017 I2OSP), written with
// stdlib calls only.
func refFixed(x *big.Int, n int) []byte {
	b := x.Bytes()
	out := make([]byte, n-len(b), n)
	return append(out, b...)
}

// a genuine signature verifies only in its exact 2n-byte form
func H_C16_verify_exact() {
	c := vCurve("curve")
	n := refOrderSize(c)
	algs := []Algorithm{AlgorithmES256, AlgorithmES384, AlgorithmES512}
	alg := algs[vChoose("alg", 3)]
	key := vECKeyValid("key", c)
	verifier, err := NewVerifier(alg, &key.PublicKey)
	vAssume(err == nil)
	content := vBlob("content")
	digest := vHash(refHashOfAlg(int64(alg)), content)
	r, s := vEcdsaSign(key, digest)
	good := append(refFixed(r, n), refFixed(s, n)...)
	var sig []byte
	mode := vChoose("mode", 7)
	switch mode {
	case 6: // zero octets between the halves: r || 0^k || s
		sig = append(append(append([]byte{}, refFixed(r, n)...), make([]byte, 1+vChoose("gap", 3))...), refFixed(s, n)...)
	case 0:
		sig = good
	case 1: // trailing bytes
		sig = append(append([]byte{}, good...), vBlobN("extra", 1, 4)...)
	case 2: // extra leading zero
		sig = append([]byte{0}, good...)
	case 3: // DER
		der, _ := asn1.Marshal(struct{ R, S *big.Int }{r, s})
		vAssume(len(der) != 2*n)
		sig = der
	case 4: // minimal-length halves (leading zeros stripped), only when that changes something
		rb, sb := r.Bytes(), s.Bytes()
		vAssume(len(rb)+len(sb) != 2*n)
		sig = append(append([]byte{}, rb...), sb...)
	case 5: // truncated
		sig = good[:2*n-1]
	}
	var res error
	if vChoose("entry", 2) == 0 {
		res = verifier.Verify(content, sig)
	} else {
		dv, isDV := verifier.(DigestVerifier)
		vAssume(isDV)
		res = dv.VerifyDigest(digest, sig)
	}
	if mode == 0 {
		vAssert("exact: a genuine signature in fixed-width form verifies", res == nil)
	} else {
		vAssert("exact: any other form of a genuine signature is ErrVerification", res == ErrVerification)
	}
	vReach("end")
}
