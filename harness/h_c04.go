//go:build verif

package cose

import "errors"

func init() {
	vRegister("H_C04_sign_constructed", H_C04_sign_constructed)
	vRegister("H_C04_verify_constructed", H_C04_verify_constructed)
	vRegister("H_C04_decoded", H_C04_decoded)
	vRegister("H_C04_helpers", H_C04_helpers)
	vRegister("H_C04_reparse", H_C04_reparse)
}

// mkAlgEntry puts an alg parameter into m: label 1 spelt with any Go integer
// kind, value of any kind. Returns (present, isSignedInteger, value).
func mkAlgEntry(name string, m map[any]any) (present bool, isInt bool, a int64, isUnsigned bool) {
	vk := vChoose(name+".vkind", 15)
	if vk == 14 {
		return false, false, 0, false
	}
	label := mkIntOfKind(vChoose(name+".lkind", 10), 1)
	a = vInt64(name + ".a")
	switch {
	case vk == 0:
		m[label] = Algorithm(a)
		return true, true, a, false
	case vk >= 1 && vk <= 5: // int64,int,int8,int16,int32
		v := mkIntOfKind(vk-1, a)
		m[label] = v
		switch vk {
		case 3:
			a = int64(int8(a))
		case 4:
			a = int64(int16(a))
		case 5:
			a = int64(int32(a))
		}
		return true, true, a, false
	case vk >= 6 && vk <= 10: // unsigned kinds
		m[label] = mkIntOfKind(vk-1, a)
		return true, false, 0, true
	case vk == 11:
		m[label] = vStr(name+".s", 3)
	case vk == 12:
		m[label] = vBlob(name + ".b")
	case vk == 13:
		m[label] = nil
	}
	return true, false, 0, false
}

// algInProtectedBytes: does the protected bstr content (a serialized map) carry 1: want ?
func algInProtectedBytes(content []byte, want int64) bool {
	if len(content) == 0 {
		return false
	}
	m := vParse(content)
	if m == nil || nMajor(m) != 5 {
		return false
	}
	for i := 0; i < nLen(m); i++ {
		k := nKey(m, i)
		if nMajor(k) == 0 && nArg(k) == 1 {
			v := nVal(m, i)
			if want >= 0 {
				return nMajor(v) == 0 && nArg(v) == uint64(want)
			}
			return nMajor(v) == 1 && nArg(v) == uint64(-1-want)
		}
	}
	return false
}

type c04target struct {
	sign1 *Sign1Message
	sig   *Signature
	cs    *Countersignature
	h     *Headers
}

func mkC04Target(name string, signed bool) c04target {
	var sg []byte
	if signed {
		sg = vBlobN(name+".sig", 1, 64)
	}
	var t c04target
	switch vChoose(name+".struct", 3) {
	case 0:
		t.sign1 = &Sign1Message{Payload: vBlob(name + ".payload"), Signature: sg}
		t.h = &t.sign1.Headers
	case 1:
		t.sig = &Signature{Signature: sg}
		t.h = &t.sig.Headers
	case 2:
		t.cs = &Countersignature{Signature: sg}
		t.h = &t.cs.Headers
	}
	return t
}

func (t c04target) sign(sp Signer, ext []byte) error {
	switch {
	case t.sign1 != nil:
		return t.sign1.Sign(nil, ext, sp)
	case t.sig != nil:
		return t.sig.Sign(nil, sp, []byte{0x40}, []byte("payload"), ext)
	}
	return t.cs.Sign(nil, sp, &Sign1Message{Payload: []byte("p"), Signature: []byte{1}}, ext)
}

func (t c04target) verify(v Verifier, ext []byte) error {
	switch {
	case t.sign1 != nil:
		return t.sign1.Verify(ext, v)
	case t.sig != nil:
		return t.sig.Verify(v, []byte{0x40}, []byte("payload"), ext)
	}
	return t.cs.Verify(v, &Sign1Message{Payload: []byte("p"), Signature: []byte{1}}, ext)
}

func (t c04target) marshal() ([]byte, error) {
	switch {
	case t.sign1 != nil:
		return (*UntaggedSign1Message)(t.sign1).MarshalCBOR()
	case t.sig != nil:
		return t.sig.MarshalCBOR()
	}
	return t.cs.MarshalCBOR()
}

func H_C04_sign_constructed() {
	t := mkC04Target("t", false)
	prot := map[any]any{}
	hasMap := vChoose("protmap", 2) == 0
	present, isInt, a, _ := false, false, int64(0), false
	if hasMap {
		present, isInt, a, _ = mkAlgEntry("alg", prot)
		if vTier() == 1 && vChoose("extra", 2) == 1 {
			l := vInt64("extra.label")
			vAssume(vOr(l > 300, l < -300))
			prot[l] = vBlob("extra.v")
		}
		t.h.Protected = ProtectedHeader(prot)
	}
	t.h.Unprotected = UnprotectedHeader{}
	ext := mkExternal("ext")
	sp := &spySigner{alg: Algorithm(vInt64("signer.alg")), sig: vBlobN("sig", 1, 64)}
	vKnown("KF-C04-1", vAnd(present, len(ext) > 0))
	err := t.sign(sp, ext)
	switch {
	case present && isInt && a != int64(sp.alg):
		vAssert("sign: mismatching alg refused with ErrAlgorithmMismatch", err != nil && errors.Is(err, ErrAlgorithmMismatch))
		vAssert("sign: key never invoked on mismatch", sp.calls == 0)
	case present && !isInt:
		vAssert("sign: non-integer / unusable alg value refused", err != nil)
		vAssert("sign: key never invoked", sp.calls == 0)
	case !present && len(ext) == 0:
		if err == nil {
			// the signer's algorithm must be inside the signed bytes and inside the emitted message
			st := vParse(sp.content)
			ok := st != nil && nMajor(st) == 4 && nLen(st) >= 4
			vAssert("sign: ToBeSigned parses", ok)
			if ok {
				idx := 1
				if t.sign1 == nil {
					idx = 2
				}
				vAssert("sign: injected alg is inside the signed protected bytes", algInProtectedBytes(nBytes(nChild(st, idx)), int64(sp.alg)))
			}
			out, merr := t.marshal()
			vAssert("sign: signed message can be encoded", merr == nil)
			if merr == nil {
				w := vParse(out)
				if w != nil && nMajor(w) == 4 {
					vAssert("sign: injected alg is inside the emitted protected bytes", algInProtectedBytes(nBytes(nChild(w, 0)), int64(sp.alg)))
				}
			}
		}
	}
	if err != nil {
		vAssert("sign: key not invoked when Sign refuses", sp.calls == 0)
	}
	vReach("end")
}

func H_C04_verify_constructed() {
	t := mkC04Target("t", true)
	prot := map[any]any{}
	hasMap := vChoose("protmap", 2) == 0
	present, isInt, a := false, false, int64(0)
	if hasMap {
		present, isInt, a, _ = mkAlgEntry("alg", prot)
		t.h.Protected = ProtectedHeader(prot)
	}
	t.h.Unprotected = UnprotectedHeader{}
	ext := mkExternal("ext")
	sv := &spyVerifier{alg: Algorithm(vInt64("verifier.alg"))}
	vKnown("KF-C04-1", vAnd(present, len(ext) > 0))
	err := t.verify(sv, ext)
	switch {
	case present && isInt && a != int64(sv.alg):
		vAssert("verify: mismatching alg refused with ErrAlgorithmMismatch", err != nil && errors.Is(err, ErrAlgorithmMismatch))
		vAssert("verify: key never invoked on mismatch", sv.calls == 0)
	case present && !isInt:
		vAssert("verify: non-integer / unusable alg value refused", err != nil)
		vAssert("verify: key never invoked", sv.calls == 0)
	case !present && len(ext) == 0:
		vAssert("verify: absent alg without external data is ErrAlgorithmNotFound", err != nil && errors.Is(err, ErrAlgorithmNotFound))
		vAssert("verify: key never invoked", sv.calls == 0)
	}
	vReach("end")
}

// decoded messages: the alg consulted is the integer in the received protected bytes
func H_C04_decoded() {
	vPriorUse("prior")
	vk := vChoose("wire.alg.kind", 4) // 0 int, 1 tstr, 2 bstr, 3 absent
	var pairs []*vNodeT
	var a int64
	switch vk {
	case 0:
		mag := vUint64("wire.alg.mag")
		vAssume(mag <= 1<<63-1)
		sign := vChoose("wire.alg.sign", 2)
		if sign == 0 {
			a = int64(mag)
		} else {
			a = -1 - int64(mag)
		}
		pairs = append(pairs, nnInt(0, 1, vWidth("wire.alg.kw", 1)), nnInt(sign, mag, vWidth("wire.alg.vw", mag)))
	case 1:
		ts := vStr("wire.alg.s", 3)
		vAssume(vUTF8(ts))
		pairs = append(pairs, nnInt(0, 1, vWidth("wire.alg.kw", 1)), nnTstr(ts, -1))
	case 2:
		pairs = append(pairs, nnInt(0, 1, vWidth("wire.alg.kw", 1)), nnBstr(vBlob("wire.alg.b"), -1))
	}
	if vChoose("wire.extra", 2) == 1 {
		l := vInt64("wire.extra.label")
		vAssume(l > 300)
		pairs = append(pairs, nnInt(0, uint64(l), -1), nnBstr(vBlob("wire.extra.v"), -1))
	}
	content := []byte{}
	if len(pairs) > 0 {
		content = vSer(nnMap(pairs, vWidth("wire.mw", uint64(len(pairs)/2))))
	}
	prot := nnBstr(content, vWidth("wire.pw", uint64(len(content))))
	sg, _ := mkWireBstr("sig", 1, 64)
	ext := mkExternal("ext")
	sv := &spyVerifier{alg: Algorithm(vInt64("verifier.alg"))}
	var err, derr error
	switch vChoose("struct", 3) {
	case 0:
		pl, _ := mkWireBstr("payload", 0, 1000)
		var m UntaggedSign1Message
		derr = m.UnmarshalCBOR(vSer(nnArray([]*vNodeT{prot, nnMap(nil, 0), pl, sg}, 0)))
		if derr == nil {
			err = m.Verify(ext, sv)
		}
	case 1:
		var s Signature
		derr = s.UnmarshalCBOR(vSer(nnArray([]*vNodeT{prot, nnMap(nil, 0), sg}, 0)))
		if derr == nil {
			err = s.Verify(sv, []byte{0x40}, []byte("payload"), ext)
		}
	case 2:
		var s Countersignature
		derr = s.UnmarshalCBOR(vSer(nnArray([]*vNodeT{prot, nnMap(nil, 0), sg}, 0)))
		if derr == nil {
			err = s.Verify(sv, &Sign1Message{Payload: []byte("p"), Signature: []byte{1}}, ext)
		}
	}
	vLogErr("decode", derr)
	vLogErr("verify", err)
	if derr != nil {
		vAssert("decoded: only a non-int/tstr alg may be refused by the decoder", vk == 2)
		vReach("decode refused")
		return
	}
	switch vk {
	case 0:
		if a != int64(sv.alg) {
			vAssert("decoded: mismatch with the alg in the received bytes is ErrAlgorithmMismatch", err != nil && errors.Is(err, ErrAlgorithmMismatch))
			vAssert("decoded: key never invoked on mismatch", sv.calls == 0)
		} else {
			vAssert("decoded: matching alg proceeds to the verifier", sv.calls == 1)
		}
	case 1, 2:
		vAssert("decoded: text alg refused", err != nil)
		vAssert("decoded: key never invoked", sv.calls == 0)
	case 3:
		if len(ext) == 0 {
			vAssert("decoded: absent alg without external data is ErrAlgorithmNotFound", err != nil && errors.Is(err, ErrAlgorithmNotFound))
			vAssert("decoded: key never invoked", sv.calls == 0)
		}
	}
	vReach("end")
}

// c04SignedUnder: whenever the key was used, the protected bytes it signed name exactly its own algorithm
// (or none, with external data)
func c04SignedUnder(tag string, sp *spySigner, ext []byte) {
	if sp.calls == 0 {
		return
	}
	st := vParse(sp.content)
	ok := st != nil && nMajor(st) == 4 && nLen(st) >= 4 && nMajor(nChild(st, 1)) == 2
	vAssert(tag+": ToBeSigned parses", ok)
	if !ok {
		return
	}
	content := nBytes(nChild(st, 1))
	named, matches := false, false
	if len(content) > 0 {
		if m := vParse(content); m != nil && nMajor(m) == 5 {
			for i := 0; i < nLen(m); i++ {
				if k := nKey(m, i); nMajor(k) == 0 && nArg(k) == 1 {
					named = true
					matches = algInProtectedBytes(content, int64(sp.alg))
				}
			}
		}
	}
	if named {
		vAssert(tag+": the key signs protected bytes that name its own algorithm", matches)
	} else {
		vAssert(tag+": protected bytes without alg are signed only with external data", len(ext) > 0)
	}
}

// the one-call helpers: Sign1, Sign1Untagged, SignHashEnvelope (which builds the protected header itself,
// whatever raw bytes the base headers carry)
func H_C04_helpers() {
	prot := map[any]any{}
	h := Headers{Unprotected: UnprotectedHeader{}}
	if vChoose("protmap", 2) == 0 {
		mkAlgEntry("alg", prot)
		h.Protected = ProtectedHeader(prot)
	}
	sp := &spySigner{alg: Algorithm(vInt64("signer.alg")), sig: vBlobN("sig", 1, 64)}
	var ext []byte
	var err error
	switch vChoose("helper", 3) {
	case 0:
		ext = mkExternal("ext")
		_, err = Sign1(nil, sp, h, vBlob("payload"), ext)
	case 1:
		ext = mkExternal("ext")
		_, err = Sign1Untagged(nil, sp, h, vBlob("payload"), ext)
	case 2:
		if vChoose("rawprot", 2) == 1 { // raw protected bytes in the base headers, naming any algorithm
			mag := vUint64("raw.alg")
			vAssume(mag <= 1<<63-1)
			h.RawProtected = vSer(nnBstr(vSer(nnMap([]*vNodeT{nnInt(0, 1, -1), nnInt(vChoose("raw.algsign", 2), mag, -1)}, -1)), -1))
		}
		_, err = SignHashEnvelope(nil, sp, h, HashEnvelopePayload{HashAlgorithm: AlgorithmSHA256, HashValue: vBlobN("hash", 32, 32)})
	}
	c04SignedUnder("helpers", sp, ext)
	if err != nil {
		vAssert("helpers: key not invoked when the helper refuses", sp.calls == 0)
	}
	vReach("end")
}

// a Headers value parsed from raw bytes a second time (UnmarshalFromRaw after RawProtected was replaced):
// the alg consulted afterwards is the one in the bytes that will be signed / verified, not a left-over
func H_C04_reparse() {
	mk := func(name string, kind int) ([]byte, bool, int64) {
		switch kind {
		case 0:
			return vSer(nnBstr([]byte{}, -1)), false, 0
		case 1:
			return vSer(nnBstr(vSer(nnMap([]*vNodeT{nnInt(0, 4, -1), nnBstr(vBlobN(name+".kid", 1, 4), -1)}, -1)), -1)), false, 0
		}
		mag := vUint64(name + ".mag")
		vAssume(mag <= 1<<63-1)
		sign := vChoose(name+".sign", 2)
		a := int64(mag)
		if sign == 1 {
			a = -1 - int64(mag)
		}
		return vSer(nnBstr(vSer(nnMap([]*vNodeT{nnInt(0, 1, -1), nnInt(sign, mag, -1)}, -1)), -1)), true, a
	}
	raw1, _, _ := mk("first", 2)
	h := Headers{RawProtected: raw1, RawUnprotected: []byte{0xa0}}
	vAssume(h.UnmarshalFromRaw() == nil)
	raw2, present, a := mk("second", vChoose("second.kind", 3))
	h.RawProtected = raw2
	vAssume(h.UnmarshalFromRaw() == nil)
	got, gerr := h.Protected.Algorithm()
	if present {
		vAssert("reparse: the typed alg is the one in the current protected bytes", gerr == nil && int64(got) == a)
	} else {
		vAssert("reparse: no alg in the current protected bytes, none reported", gerr == ErrAlgorithmNotFound)
	}
	m := &Sign1Message{Headers: h, Payload: vBlob("payload"), Signature: vBlobN("sig", 1, 64)}
	sv := &spyVerifier{alg: Algorithm(vInt64("verifier.alg"))}
	ext := mkExternal("ext")
	err := m.Verify(ext, sv)
	switch {
	case present && a != int64(sv.alg):
		vAssert("reparse: mismatching alg refused, key not used", err != nil && errors.Is(err, ErrAlgorithmMismatch) && sv.calls == 0)
	case !present && len(ext) == 0:
		vAssert("reparse: absent alg without external data refused, key not used", err != nil && errors.Is(err, ErrAlgorithmNotFound) && sv.calls == 0)
	}
	vReach("end")
}
