//go:build verif

package cose

func init() {
	vRegister("H_C06_sign1", H_C06_sign1)
	vRegister("H_C06_sign", H_C06_sign)
	vRegister("H_C06_signature", H_C06_signature)
	vRegister("H_C06_headers", H_C06_headers)
	vRegister("HT_C06_key", HT_C06_key)
	vRegister("H_C06_key_faulted", H_C06_key_faulted)
	vRegister("H_C06_hashenv", H_C06_hashenv)
	vRegister("H_C06_hashenv_params", H_C06_hashenv_params)
	vRegister("H_C06_garbage", H_C06_garbage)
}

// every harness fails if any path panics (Go runtime panics and the stdlib
// precondition panics are modelled); the follow-ups run on every accepted value.

func c06Followups(parent any) {
	// the follow-ups are about panics, not verdicts: concrete algorithms, no external data
	sv := &spyVerifier{alg: AlgorithmES256}
	sp := &spySigner{alg: AlgorithmES256, sig: vBlobN("fu.sig", 1, 64)}
	var ext []byte
	switch m := parent.(type) {
	case *Sign1Message:
		m.MarshalCBOR()
		m.Verify(ext, sv)
		(*UntaggedSign1Message)(m).MarshalCBOR()
	case *SignMessage:
		m.MarshalCBOR()
		m.Verify(ext, sv)
		m.Verify(ext, sv, sv)
	case *Signature:
		m.MarshalCBOR()
		m.Verify(sv, []byte{0x40}, vBlob("fu.payload"), ext)
	case *Countersignature:
		m.MarshalCBOR()
	}
	cs := NewCountersignature()
	cs.Sign(nil, sp, parent, ext)
	cs.Verify(sv, parent, ext)
	Countersign0(nil, sp, parent, ext)
	VerifyCountersign0(sv, parent, ext, vBlobN("fu.cs0", 1, 64))
}

// walk decoded countersignature values as a user would
func c06WalkHeaders(h *Headers) {
	for _, v := range h.Unprotected {
		switch c := v.(type) {
		case *Countersignature:
			c.MarshalCBOR()
			c.Verify(&spyVerifier{alg: AlgorithmES256}, &Sign1Message{Payload: []byte{1}, Signature: []byte{1}}, nil)
		case []*Countersignature:
			for _, x := range c {
				x.MarshalCBOR()
			}
		}
	}
	h.Protected.Algorithm()
	h.Protected.Critical()
	h.Protected.PayloadHashAlgorithm()
}

// c06Feature: quick tier uses the features that reach distinct decoder code (alg, crit, single / list of countersignatures)
func c06Feature() int {
	f := vChoose("feature", nLayerFeatures)
	if vTier() == 0 {
		vAssume(f == 0 || f == 2 || f == 4 || f == 8 || f == 9 || f == 11)
	}
	return f
}

func H_C06_sign1() {
	fp := mkFaultPlan(c05Budget())
	body := mkSign1Body("m", c06Feature(), fp)
	var m Sign1Message
	var err error
	if vChoose("tagged", 2) == 0 {
		num, w := uint64(18), 0
		if fp.at() {
			num = vUint64("tagnum")
			w = vWidth("tagw", num)
		}
		wire, _ := c05Wire(nnTag(num, body, w), fp)
		err = m.UnmarshalCBOR(wire)
	} else {
		wire, _ := c05Wire(body, fp)
		err = (*UntaggedSign1Message)(&m).UnmarshalCBOR(wire)
	}
	if err == nil {
		c06WalkHeaders(&m.Headers)
		c06Followups(&m)
		vReach("accepted")
	}
	vReach("end")
}

func H_C06_sign() {
	fp := mkFaultPlan(c05Budget())
	n := 1 + vChoose("nsig", 2)
	feature := vChoose("feature", nLayerFeatures)
	if vTier() == 0 {
		vAssume(feature == 0 || feature == 8) // header rules proper are exercised by the sign1 / signature harnesses
	} else {
		vAssume(feature == 0 || feature == 2 || feature == 6 || feature == 8)
	}
	p, u := mkLayer("m", 0, fp, 0)
	pl := mkConfPayload("m.payload", fp)
	var sigs []*vNodeT
	for i := 0; i < n; i++ {
		sf := 0
		if i == 0 {
			sf = feature
		}
		sigs = append(sigs, mkCountersig("s"+vItoa(i), sf, fp, 1))
	}
	sa := fp.node("sigs", func() *vNodeT { return nnArray(sigs, vWidth("sw", uint64(n))) })
	wire, _ := c05Wire(nnTag(98, nnArray([]*vNodeT{p, u, pl, sa}, 0), 1), fp)
	var m SignMessage
	if m.UnmarshalCBOR(wire) == nil {
		c06WalkHeaders(&m.Headers)
		for _, s := range m.Signatures {
			c06WalkHeaders(&s.Headers)
		}
		c06Followups(&m)
		if len(m.Signatures) > 0 {
			c06Followups(m.Signatures[0])
		}
		vReach("accepted")
	}
	vReach("end")
}

func H_C06_signature() {
	fp := mkFaultPlan(c05Budget())
	s := mkCountersig("s", c06Feature(), fp, 0)
	wire, _ := c05Wire(s, fp)
	if vChoose("type", 2) == 0 {
		var v Signature
		if v.UnmarshalCBOR(wire) == nil {
			c06WalkHeaders(&v.Headers)
			c06Followups(&v)
			vReach("accepted")
		}
	} else {
		var v Countersignature
		if v.UnmarshalCBOR(wire) == nil {
			c06WalkHeaders(&v.Headers)
			c06Followups(&v)
			vReach("accepted")
		}
	}
	vReach("end")
}

func H_C06_headers() {
	fp := mkFaultPlan(c05Budget())
	p, u := mkLayer("h", vChoose("feature", nLayerFeatures), fp, 0)
	h := Headers{}
	if vChoose("bucket", 2) == 0 {
		wire, _ := c05Wire(p, fp)
		if h.Protected.UnmarshalCBOR(wire) == nil {
			h.Protected.MarshalCBOR()
			vReach("accepted")
		}
	} else {
		wire, _ := c05Wire(u, fp)
		if h.Unprotected.UnmarshalCBOR(wire) == nil {
			h.Unprotected.MarshalCBOR()
			vReach("accepted")
		}
	}
	c06WalkHeaders(&h)
	vReach("end")
}

// COSE_Key: map of up to 5 pairs; labels among the registered ones, arbitrary ints and text; values arbitrary
func mkKeyTree(name string, maxPairs int) *vNodeT {
	n := vChoose(name+".n", maxPairs+1)
	var pairs []*vNodeT
	for i := 0; i < n; i++ {
		nm := name + "." + vItoa(i)
		var k *vNodeT
		lk := vChoose(nm+".lk", 3)
		if i == 0 && vTier() == 0 {
			// quick: the first pair is the key type (without kty the decoder stops at once)
			vAssume(lk == 0)
		}
		switch lk {
		case 0: // small integer labels: 1..5 and -1..-4 are the interesting ones
			sign := vChoose(nm+".ls", 2)
			mag := vUint64(nm + ".lm")
			vAssume(mag <= 6)
			if i == 0 && vTier() == 0 {
				vAssume(vAnd(sign == 0, mag == 1))
			}
			k = nnInt(sign, mag, vWidth(nm+".lw", mag))
		case 1:
			sign := vChoose(nm+".ls", 2)
			mag := vUint64(nm + ".lm")
			k = nnInt(sign, mag, vWidth(nm+".lw", mag))
		case 2:
			k = nnTstr(vStr(nm+".lt", 2), -1)
		}
		var v *vNodeT
		if vTier() == 1 {
			v = mkAny(nm+".v", 1)
		} else if vChoose(nm+".ops", 8) == 0 {
			// a key_ops-style array
			x := vUint64(nm + ".opi")
			v = nnArray([]*vNodeT{nnTstr(vStr(nm+".ops", 2), -1), nnInt(0, x, vWidth(nm+".opw", x))}, -1)
		} else {
			v = mkAny(nm+".v", 0)
		}
		pairs = append(pairs, k, v)
	}
	return nnMap(pairs, vWidth(name+".mw", uint64(n)))
}

func c06KeyFollowups(k *Key) {
	k.MarshalCBOR()
	k.PublicKey()
	k.PrivateKey()
	k.AlgorithmOrDefault()
	if s, err := k.Signer(); err == nil {
		s.Algorithm()
		s.Sign(vRand(), vBlob("fu.content"))
	}
	if v, err := k.Verifier(); err == nil {
		v.Algorithm()
		v.Verify(vBlob("fu.vcontent"), vBlobN("fu.vsig", 64, 64))
	}
	k.EC2()
	k.OKP()
	k.Symmetric()
	k.ParamBytes(int64(-2))
	k.ParamInt(int64(-1))
	k.ParamUint(int64(-1))
	k.ParamString(int64(-1))
	k.ParamBool(int64(-1))
}

func HT_C06_key() {
	wire := vSer(mkKeyTree("k", 2))
	if vChoose("trailing", 2) == 1 {
		wire = append(wire, vBlobN("trail", 1, 4)...)
	}
	var k Key
	if k.UnmarshalCBOR(wire) == nil {
		c06KeyFollowups(&k)
		vReach("accepted")
	}
	vReach("end")
}

func H_C06_hashenv() {
	fp := mkFaultPlan(c05Budget())
	body := mkSign1Body("m", c06Feature(), fp)
	wire, _ := c05Wire(nnTag(18, body, 0), fp)
	sv := &spyVerifier{alg: Algorithm(vInt64("valg"))}
	if m, err := VerifyHashEnvelope(sv, wire); err == nil {
		m.MarshalCBOR()
		vReach("accepted")
	}
	vReach("end")
}

// hash-envelope parameters (258 / 259 / 260) of every spelling, with one position replaced by an arbitrary item
func H_C06_hashenv_params() {
	fp := mkFaultPlan(c05Budget())
	var pp, up []*vNodeT
	// keys and wrappers are exact here (H_C06_hashenv faults those); every parameter VALUE is a fault position
	add := func(dst *[]*vNodeT, label uint64, nm string, val func() *vNodeT) {
		var v *vNodeT
		if fp.at() {
			v = mkAny("fault.he.val."+nm, vTier())
		} else {
			v = val()
		}
		*dst = append(*dst, nnInt(0, label, vWidth("he.kw."+nm, label)), v)
	}
	anyInt := func(nm string) func() *vNodeT {
		return func() *vNodeT {
			mag := vUint64("he." + nm)
			vAssume(mag <= 1<<63-1)
			return nnInt(vChoose("he."+nm+".sign", 2), mag, vWidth("he."+nm+".w", mag))
		}
	}
	text := func(nm string, max int) func() *vNodeT {
		return func() *vNodeT {
			s := vStr("he."+nm, max)
			return nnTstr(s, vWidth("he."+nm+".w", uint64(len(s))))
		}
	}
	add(&pp, 1, "alg", anyInt("alg"))
	add(&pp, 258, "halg", anyInt("halg"))
	ctk, lock := 0, 0
	if vTier() == 1 {
		ctk, lock = vChoose("he.ct", 4), vChoose("he.loc", 3)
	} else { // quick: one optional parameter at a time
		switch sh := vChoose("he.shape", 6); sh {
		case 1, 2, 3:
			ctk = sh
		case 4, 5:
			lock = sh - 3
		}
	}
	switch ctk {
	case 1:
		add(&pp, 259, "ct", anyInt("ctu"))
	case 2:
		add(&pp, 259, "ct", text("cts", 3))
	case 3: // in the wrong bucket
		add(&up, 259, "ct", text("cts", 3))
	}
	switch lock {
	case 1:
		add(&pp, 260, "loc", text("locs", 2))
	case 2:
		add(&up, 260, "loc", text("locs", 2))
	}
	content := vSer(nnMap(pp, vWidth("he.pmw", uint64(len(pp)/2))))
	prot := nnBstr(content, vWidth("he.pbw", uint64(len(content))))
	unprot := nnMap(up, vWidth("he.umw", uint64(len(up)/2)))
	hash := vBlob("he.hash")
	sig := vBlobN("he.sig", 1, 200)
	body := nnArray([]*vNodeT{prot, unprot, nnBstr(hash, vWidth("he.hw", uint64(len(hash)))), nnBstr(sig, vWidth("he.sw", uint64(len(sig))))}, 0)
	sv := &spyVerifier{alg: Algorithm(vInt64("valg"))}
	if m, err := VerifyHashEnvelope(sv, vSer(nnTag(18, body, 0))); err == nil {
		m.MarshalCBOR()
		vReach("accepted")
	}
	vReach("end")
}

// bytes that are not CBOR at all, for each entry point
func H_C06_garbage() {
	g := vGarbage("g", 1, 1<<16)
	if vChoose("prefix", 2) == 1 {
		// a plausible prefix followed by garbage
		pre := [][]byte{{0xd2, 0x84}, {0x84}, {0xd8, 0x62, 0x84}, {0x83}, {0x40}, {0xa1}, {0xa1, 0x01}}[vChoose("which", 7)]
		g = append(append([]byte{}, pre...), g...)
	}
	var e1, e2, e3, e4, e5, e6, e7, e8 error
	var s1 Sign1Message
	e1 = s1.UnmarshalCBOR(g)
	var u1 UntaggedSign1Message
	e2 = u1.UnmarshalCBOR(g)
	var sm SignMessage
	e3 = sm.UnmarshalCBOR(g)
	var sg Signature
	e4 = sg.UnmarshalCBOR(g)
	var cs Countersignature
	e5 = cs.UnmarshalCBOR(g)
	var ph ProtectedHeader
	e6 = ph.UnmarshalCBOR(g)
	var uh UnprotectedHeader
	e7 = uh.UnmarshalCBOR(g)
	var k Key
	e8 = k.UnmarshalCBOR(g)
	_, e9 := VerifyHashEnvelope(&spyVerifier{}, g)
	vAssert("garbage is refused by every decoder", e1 != nil && e2 != nil && e3 != nil && e4 != nil && e5 != nil && e6 != nil && e7 != nil && e8 != nil && e9 != nil)
	vReach("end")
}

// mkConfKeyTree: a well-formed EC2 / OKP / Symmetric COSE_Key with optional
// common parameters. One dimension varies at a time (one-hot): either one
// coordinate gets an unusual length, or the curve is arbitrary, or (with a
// fault budget) one label / value is replaced by an arbitrary item.
func mkConfKeyTree(name string, fp *faultPlan) *vNodeT {
	var pairs []*vNodeT
	add := func(sign int, mag uint64, val func() *vNodeT) {
		idx := vItoa(len(pairs) / 2)
		k := fp.node(name+".key"+idx, func() *vNodeT { return nnInt(sign, mag, vWidth(name+".kw"+idx, mag)) })
		v := fp.node(name+".val"+idx, val)
		pairs = append(pairs, k, v)
	}
	vary := 0
	if fp.budget == 0 && !keyTreeNoVary {
		vary = vChoose(name+".vary", 5) // 0 none, 1 x, 2 y, 3 d, 4 curve value
	}
	okp := false
	bs := func(s string, n int, which int) func() *vNodeT {
		return func() *vNodeT {
			lo, hi := n, n
			if vary == which || (vary == 4 && okp) { // for OKP keys the size goes with the curve: vary both together
				lo, hi = 0, 70 // the varied coordinate has any length (all the sizes of RFC 9053 section 7 and their neighbours)
			}
			b := vBlobN(name+"."+s, lo, hi)
			return nnBstr(b, vWidth(name+"."+s+".w", uint64(len(b))))
		}
	}
	u := func(v uint64) func() *vNodeT { return func() *vNodeT { return nnInt(0, v, -1) } }
	crvNode := func(c uint64) func() *vNodeT {
		return func() *vNodeT {
			if vary == 4 {
				x := vUint64(name + ".crv")
				return nnInt(vChoose(name+".crvsign", 2), x, vWidth(name+".crvw", x))
			}
			return nnInt(0, c, -1)
		}
	}
	kty := vChoose(name+".kty", 5)
	okp = kty == 3
	switch kty {
	case 0, 1, 2: // EC2 P-256 / P-384 / P-521
		size := []int{32, 48, 66}[kty]
		add(0, 1, u(2))
		add(1, 0, crvNode(uint64(kty+1)))
		if keyTreeGenuine && vary == 0 {
			// a genuine key pair, so that what the model concludes about signers / verifiers can be replayed natively
			sk := vECKeyValid(name+".ec", vCurveByIndex(kty))
			vAssume(vOnCurve(&sk.PublicKey))
			fixed := func(b []byte) func() *vNodeT { return func() *vNodeT { return nnBstr(b, -1) } }
			add(1, 1, fixed(sk.X.FillBytes(make([]byte, size))))
			add(1, 2, fixed(sk.Y.FillBytes(make([]byte, size))))
			if vChoose(name+".priv", 2) == 1 {
				add(1, 3, fixed(sk.D.FillBytes(make([]byte, size))))
			}
		} else {
			add(1, 1, bs("x", size, 1))
			add(1, 2, bs("y", size, 2))
			if vChoose(name+".priv", 2) == 1 {
				add(1, 3, bs("d", size, 3))
			}
		}
	case 3: // OKP Ed25519
		add(0, 1, u(1))
		add(1, 0, crvNode(6))
		add(1, 1, bs("x", 32, 1))
		if vChoose(name+".priv", 2) == 1 {
			add(1, 3, bs("d", 32, 3))
		}
	case 4: // Symmetric
		add(0, 1, u(4))
		add(1, 0, bs("k", 16, 1))
	}
	common := vChoose(name+".common", 5)
	if fp.budget > 0 && vTier() == 0 {
		vAssume(common == 0 || common == 3) // quick: faults on the bare key and on key_ops
	}
	switch common {
	case 1:
		add(0, 2, bs("kid", 5, -1))
	case 2:
		mag := vUint64(name + ".alg")
		vAssume(mag <= 1<<63-1)
		add(0, 3, func() *vNodeT { return nnInt(1, mag, vWidth(name+".algw", mag)) })
	case 3:
		add(0, 4, func() *vNodeT {
			x := vUint64(name + ".op")
			vAssume(x <= 1<<63-1)
			return nnArray([]*vNodeT{nnInt(0, x, -1), nnTstr("verify", -1)}, -1)
		})
	case 4:
		add(0, 5, bs("biv", 8, -1))
	}
	return nnMap(pairs, vWidth(name+".mw", uint64(len(pairs)/2)))
}

var keyTreeNoVary bool
var keyTreeGenuine bool

func H_C06_key_faulted() {
	fp := mkFaultPlan(vChoose("budget", c05Budget()+1))
	wire, _ := c05Wire(mkConfKeyTree("k", fp), fp)
	var k Key
	if k.UnmarshalCBOR(wire) == nil {
		c06KeyFollowups(&k)
		vReach("accepted")
	}
	vReach("end")
}
