//go:build verif

package cose

// Harnesses that call unexported functions of the library directly. They are optional: when the tree
// under check no longer has these signatures the engine skips the hi_*.go files (and says so).

import "math/big"

func init() {
	vRegister("H_C16_encode", H_C16_encode)
	vRegister("H_C16_encode_range", H_C16_encode_range)
}

// every (r,s) in [1,N-1]^2 on every curve is encoded as fixed-width r||s
func H_C16_encode() {
	c := vCurve("curve")
	n := refOrderSize(c)
	N := c.Params().N
	r, s := vBig("r", 528), vBig("s", 528)
	vAssume(r.Sign() > 0)
	vAssume(s.Sign() > 0)
	vAssume(r.Cmp(N) < 0)
	vAssume(s.Cmp(N) < 0)
	sig, err := encodeECDSASignature(c, r, s)
	vAssert("encode: no error for in-range (r,s)", err == nil)
	vAssert("encode: length is 2*ceil(bitlen(N)/8)", len(sig) == 2*n)
	vAssume(len(sig) == 2*n)
	vAssert("encode: first half is r, big endian, left padded", new(big.Int).SetBytes(sig[:n]).Cmp(r) == 0)
	vAssert("encode: second half is s, big endian, left padded", new(big.Int).SetBytes(sig[n:]).Cmp(s) == 0)
	// decoding gives the same integers back
	r2, s2, err2 := decodeECDSASignature(c, sig)
	vAssert("decode: no error on own output", err2 == nil)
	vAssume(err2 == nil)
	vAssert("decode: r round trip", r2.Cmp(r) == 0)
	vAssert("decode: s round trip", s2.Cmp(s) == 0)
	vReach("end")
}

// integers that do not fit n bytes (or are negative) give an error and no bytes
func H_C16_encode_range() {
	c := vCurve("curve")
	n := refOrderSize(c)
	r, s := vBigSigned("r", 600), vBigSigned("s", 600)
	sig, err := encodeECDSASignature(c, r, s)
	fitsR := r.Sign() >= 0 && r.BitLen() <= 8*n
	fitsS := s.Sign() >= 0 && s.BitLen() <= 8*n
	if fitsR && fitsS {
		vAssert("range: fitting integers are encoded", err == nil)
		vAssert("range: length 2n", len(sig) == 2*n)
	} else {
		vAssert("range: negative / oversized integer is an error", err != nil)
		vAssert("range: no bytes with an error", sig == nil)
	}
	vReach("end")
}

