//go:build verif

package cose

func init() {
	vRegister("H_C05_sign1", H_C05_sign1)
	vRegister("H_C05_signature", H_C05_signature)
	vRegister("H_C05_sign", H_C05_sign)
	vRegister("H_C05_headers", H_C05_headers)
	vRegister("H_C05_cross_type", H_C05_cross_type)
}

// wrap: optional trailing bytes after the item (a fault position)
func c05Wire(n *vNodeT, fp *faultPlan) ([]byte, bool) {
	b := vSer(n)
	if fp.at() {
		return append(b, vBlobN("trailing", 1, 16)...), true
	}
	return b, false
}

func c05Budget() int {
	if vTier() == 1 {
		return 2
	}
	return 1
}

// COSE_Sign1 tagged and untagged: accepted => well-formed COSE_Sign1 of that form
func H_C05_sign1() {
	fp := mkFaultPlan(c05Budget())
	body := mkSign1Body("m", vChoose("feature", nLayerFeatures), fp)
	tagged := vChoose("tagged", 2) == 0
	top := body
	if tagged {
		num := uint64(18)
		w := 0
		if fp.at() {
			num = vUint64("tagnum")
			w = vWidth("tagw", num)
		}
		top = nnTag(num, body, w)
	}
	wire, trailing := c05Wire(top, fp)
	var err error
	if tagged {
		var m Sign1Message
		err = m.UnmarshalCBOR(wire)
	} else {
		var m UntaggedSign1Message
		err = m.UnmarshalCBOR(wire)
	}
	if err == nil {
		vAssert("sign1: nothing after the item", !trailing)
		if tagged {
			vAssert("sign1: tag 18 in shortest form", nMajor(top) == 6 && nArg(top) == 18 && nWidth(top) == 0)
		}
		vAssert("sign1: accepted input is a well-formed COSE_Sign1", tSign1BodyOK(body))
		vReach("accepted")
	} else {
		vReach("refused")
	}
}

// COSE_Signature and countersignature decoders
func H_C05_signature() {
	fp := mkFaultPlan(c05Budget())
	s := mkCountersig("s", vChoose("feature", nLayerFeatures), fp, 0)
	if fp.at() {
		switch vChoose("arity", 3) {
		case 0:
			s = nnArray([]*vNodeT{nChild(s, 0), nChild(s, 1)}, 0)
		case 1:
			s = nnArray([]*vNodeT{nChild(s, 0), nChild(s, 1), nChild(s, 2), mkAny("extra", 0)}, 0)
		case 2:
			s = nnArray([]*vNodeT{nChild(s, 0), nChild(s, 1), nChild(s, 2)}, vWidth("aw", 3))
		}
	}
	wire, trailing := c05Wire(s, fp)
	var err error
	if vChoose("type", 2) == 0 {
		var v Signature
		err = v.UnmarshalCBOR(wire)
	} else {
		var v Countersignature
		err = v.UnmarshalCBOR(wire)
	}
	if err == nil {
		vAssert("signature: nothing after the item", !trailing)
		vAssert("signature: accepted input is a well-formed COSE_Signature", tSignatureOK(s))
		vReach("accepted")
	} else {
		vReach("refused")
	}
}

// COSE_Sign: the feature sits in the body layer or in one of the signatures
func H_C05_sign() {
	fp := mkFaultPlan(c05Budget())
	n := 1 + vChoose("nsig", 2)
	focus := vChoose("focus", n+1)
	feature := vChoose("feature", nLayerFeatures)
	if vTier() == 0 && focus > 0 {
		// quick: the signature layers get the features that differ from the body layer's treatment
		vAssume(feature == 0 || feature == 2 || feature == 6 || feature == 8)
	}
	bf := 0
	if focus == 0 {
		bf = feature
	}
	p, u := mkLayer("m", bf, fp, 0)
	pl := mkConfPayload("m.payload", fp)
	var sigs []*vNodeT
	for i := 0; i < n; i++ {
		sf := 0
		if focus == i+1 {
			sf = feature
		}
		sigs = append(sigs, mkCountersig("s"+vItoa(i), sf, fp, 1))
	}
	sa := fp.node("sigs", func() *vNodeT { return nnArray(sigs, vWidth("sw", uint64(n))) })
	if fp.at() {
		sa = nnArray(nil, vWidth("sw0", 0)) // no signatures
	}
	body := nnArray([]*vNodeT{p, u, pl, sa}, 0)
	num, w := uint64(98), 1
	if fp.at() {
		num = vUint64("tagnum")
		w = vWidth("tagw", num)
	}
	top := nnTag(num, body, w)
	wire, trailing := c05Wire(top, fp)
	var m SignMessage
	err := m.UnmarshalCBOR(wire)
	if err == nil {
		vAssert("sign: nothing after the item", !trailing)
		vAssert("sign: tag 98 in shortest form", nArg(top) == 98 && nWidth(top) == 1)
		vAssert("sign: accepted input is a well-formed COSE_Sign", tSignBodyOK(body))
		vReach("accepted")
	} else {
		vReach("refused")
	}
}

// header bucket decoders on their own
func H_C05_headers() {
	fp := mkFaultPlan(c05Budget())
	p, u := mkLayer("h", vChoose("feature", nLayerFeatures), fp, 0)
	if vChoose("bucket", 2) == 0 {
		wire, trailing := c05Wire(p, fp)
		var h ProtectedHeader
		if h.UnmarshalCBOR(wire) == nil {
			vAssert("protected: nothing after the item", !trailing)
			vAssert("protected: accepted input is empty or a wrapped conforming map", tProtectedOK(p, 0))
			vReach("accepted")
		}
	} else {
		wire, trailing := c05Wire(u, fp)
		var h UnprotectedHeader
		if h.UnmarshalCBOR(wire) == nil {
			vAssert("unprotected: nothing after the item", !trailing)
			tTagsInStandaloneBucket = true // no envelope here: tags in values are the library's documented data model
			vAssert("unprotected: accepted input is a conforming map", tHeaderMapOK(u, false, 0) && tClean(u, true))
			vReach("accepted")
		}
	}
	vReach("end")
}

// no decoder accepts the encoding of another structure kind
func H_C05_cross_type() {
	fp := mkFaultPlan(0)
	body := mkSign1Body("m", vChoose("feature", 3), fp)
	sig := mkCountersig("s", vChoose("sfeature", 3), fp, 1)
	gp, gu := mkLayer("g", 0, fp, 0)
	signBody := nnArray([]*vNodeT{gp, gu, mkConfPayload("g.pl", fp), nnArray([]*vNodeT{sig}, 0)}, 0)
	var wire []byte
	kind := vChoose("wire", 5)
	switch kind {
	case 0:
		wire = vSer(nnTag(18, body, 0))
	case 1:
		wire = vSer(body)
	case 2:
		wire = vSer(nnTag(98, signBody, 1))
	case 3:
		wire = vSer(sig)
	case 4:
		wire = vSer(signBody) // an untagged COSE_Sign has the same shape class as a COSE_Sign1 body only syntactically
	}
	var s1 Sign1Message
	var u1 UntaggedSign1Message
	var sm SignMessage
	var sg Signature
	var cs Countersignature
	if kind != 0 {
		vAssert("cross: Sign1Message decoder refuses other kinds", s1.UnmarshalCBOR(wire) != nil)
	}
	if kind != 1 && kind != 4 {
		vAssert("cross: UntaggedSign1Message decoder refuses other kinds", u1.UnmarshalCBOR(wire) != nil)
	}
	if kind == 4 {
		vAssert("cross: an untagged COSE_Sign body is not a COSE_Sign1 (signatures array is not a bstr)", u1.UnmarshalCBOR(wire) != nil)
	}
	if kind != 2 {
		vAssert("cross: SignMessage decoder refuses other kinds", sm.UnmarshalCBOR(wire) != nil)
	}
	if kind != 3 {
		vAssert("cross: Signature decoder refuses other kinds", sg.UnmarshalCBOR(wire) != nil)
		vAssert("cross: Countersignature decoder refuses other kinds", cs.UnmarshalCBOR(wire) != nil)
	}
	vReach("end")
}
