//go:build verif

package cose

// Harness API. The symbolic engine (gosym) intercepts every function in this
// file by name; the bodies below are the *native* semantics used when a solver
// model is replayed against the compiled real code (VERIF_REPLAY=<file>).

import (
	"runtime"
	"sync"
	"bytes"
	"crypto"
	"crypto/ecdsa"
	"crypto/ed25519"
	"crypto/elliptic"
	"crypto/rsa"
	cryptorand "crypto/rand"
	"io"
	"errors"
	"encoding/hex"
	"encoding/json"
	"fmt"
	"math/big"
	"os"
	"reflect"
	"strconv"
	"strings"
	"time"
	"unicode/utf8"
	"unsafe"
)

type vReplayDoc struct {
	Harness   string                 `json:"harness"`
	Assertion string                 `json:"assertion"`
	Values    map[string]interface{} `json:"values"`
}

var (
	vDoc        vReplayDoc
	vNameCount  = map[string]int{}
	vFailures   []string
	vReachedLbl []string
)

func vLoadReplay(path string) error {
	b, err := os.ReadFile(path)
	if err != nil {
		return err
	}
	vDoc = vReplayDoc{}
	vNameCount = map[string]int{}
	vFailures = nil
	vEcdsaCalls = 0
	d := json.NewDecoder(bytes.NewReader(b))
	d.UseNumber()
	return d.Decode(&vDoc)
}

func vName(name string) string {
	c := vNameCount[name]
	vNameCount[name] = c + 1
	if c == 0 {
		return name
	}
	return fmt.Sprintf("%s#%d", name, c)
}

func vLookup(name string) (interface{}, bool) {
	v, ok := vDoc.Values[vName(name)]
	return v, ok
}

func vToBig(v interface{}) *big.Int {
	switch x := v.(type) {
	case string:
		if len(x) > 2 && x[:2] == "0x" {
			n, _ := new(big.Int).SetString(x[2:], 16)
			return n
		}
		n, ok := new(big.Int).SetString(x, 10)
		if ok {
			return n
		}
	case json.Number:
		n, _ := new(big.Int).SetString(x.String(), 10)
		return n
	case float64:
		return big.NewInt(int64(x))
	}
	return new(big.Int)
}

func vBool(name string) bool {
	v, ok := vLookup(name)
	if !ok {
		return false
	}
	b, _ := v.(bool)
	return b
}

func vInt64(name string) int64 {
	v, ok := vLookup(name)
	if !ok {
		return 0
	}
	return vToBig(v).Int64()
}

func vInt(name string) int { return int(vInt64(name)) }

func vUint64(name string) uint64 {
	v, ok := vLookup(name)
	if !ok {
		return 0
	}
	return vToBig(v).Uint64()
}

func vByte(name string) byte { return byte(vUint64(name)) }

func vChoose(name string, n int) int {
	v, ok := vLookup(name)
	if !ok {
		return 0
	}
	k := int(vToBig(v).Int64())
	if k < 0 || k >= n {
		return 0
	}
	return k
}

// vBlob: opaque content of any length in [0, 2^31).
func vBlob(name string) []byte { return vBlobN(name, 0, 1<<31-1) }

func vBlobN(name string, lo, hi int) []byte {
	v, ok := vLookup(name)
	if !ok {
		return make([]byte, lo)
	}
	m, _ := v.(map[string]interface{})
	n := int(vToBig(m["len"]).Int64())
	head, _ := hex.DecodeString(fmt.Sprint(m["head"]))
	b := make([]byte, n)
	for i := range b {
		b[i] = byte(0x5a + 7*i) // position dependent filler
	}
	copy(b, head)
	return b
}

func vStr(name string, maxLen int) string {
	v, ok := vLookup(name)
	if !ok {
		return ""
	}
	b, _ := hex.DecodeString(fmt.Sprint(v))
	return string(b)
}

func vBig(name string, bits int) *big.Int {
	v, ok := vLookup(name)
	if !ok {
		return new(big.Int)
	}
	return vToBig(v)
}

func vBigSigned(name string, bits int) *big.Int {
	n := vName(name)
	v, ok := vDoc.Values[n]
	if !ok {
		return new(big.Int)
	}
	x := vToBig(v)
	if b, _ := vDoc.Values[n+".neg"].(bool); b {
		x.Neg(x)
	}
	return x
}

func vCurve(name string) elliptic.Curve { return vCurveByIndex(vChoose(name, 3)) }

func vCurveByIndex(i int) elliptic.Curve {
	switch i {
	case 0:
		return elliptic.P256()
	case 1:
		return elliptic.P384()
	case 2:
		return elliptic.P521()
	}
	return elliptic.P224()
}

func vAssume(c bool) {
	if !c {
		panic(vAssumeFailed{})
	}
}

type vAssumeFailed struct{}

func vAssert(label string, c bool) {
	if !c {
		vFailures = append(vFailures, label)
		fmt.Printf("VERIF-REPLAY-VIOLATION assertion failed: %s\n", label)
	}
}

func vReach(label string)          { vReachedLbl = append(vReachedLbl, label) }
func vKnown(id string, c bool)     {}
func vMapOrder()                   { vUsesMapOrder = true }
func vFreeze()                     {}
func vUnfreeze()                   {}
func vWrites() int                 { return 0 }
func vNote(s string)               {}
func vRopeEq(a, b []byte) bool     { return bytes.Equal(a, b) }
func vIsNilBytes(b []byte) bool    { return b == nil }
func vPrimCalls(kind string) int   { return 0 } // not observable natively
func vTier() int {
	if os.Getenv("VERIF_TIER") == "thorough" {
		return 1
	}
	return 0
}

// vECKey: a key with arbitrary (X, Y, D) inside the field / order bounds. The
// point need not be on the curve (on-curve validity is an environment flag).
func vECKey(name string, c elliptic.Curve) *ecdsa.PrivateKey {
	n := vName(name)
	get := func(s string) *big.Int {
		if v, ok := vDoc.Values[n+s]; ok {
			return vToBig(v)
		}
		return big.NewInt(1)
	}
	return &ecdsa.PrivateKey{PublicKey: ecdsa.PublicKey{Curve: c, X: get(".X"), Y: get(".Y")}, D: get(".D")}
}

func vRSAKey(name string) *rsa.PrivateKey {
	n := vName(name)
	bits := 2048
	if v, ok := vDoc.Values[n+".bits"]; ok {
		bits = int(vToBig(v).Int64())
	}
	N := new(big.Int).Lsh(big.NewInt(1), uint(bits-1))
	N.Or(N, big.NewInt(1))
	return &rsa.PrivateKey{PublicKey: rsa.PublicKey{N: N, E: 65537}, D: big.NewInt(1)}
}

func vEdKey(name string) ed25519.PrivateKey {
	b := vBlobN(name, 64, 64)
	// make it a consistent key pair so that native sign/verify work
	return ed25519.NewKeyFromSeed(b[:32])
}

var _ = strconv.Itoa

var vHarnesses = map[string]func(){}

func vRegister(name string, f func()) { vHarnesses[name] = f }

// vEcdsaVerdict is the primitive's verdict (uninterpreted for the solver, the
// real crypto/ecdsa natively).
func vEcdsaVerdict(pub *ecdsa.PublicKey, digest []byte, r, s *big.Int) bool {
	return ecdsa.Verify(pub, digest, r, s)
}

// vHash is the primitive hash (uninterpreted for the solver).
func vHash(h int, data []byte) []byte {
	d, err := computeHashRef(h, data)
	if err != nil {
		panic(err)
	}
	return d
}

// vECKeyValid: a genuine key pair (natively X,Y = D*G; for the solver X,Y are
// unconstrained field elements, a superset).
func vECKeyValid(name string, c elliptic.Curve) *ecdsa.PrivateKey {
	k := vECKey(name, c)
	nm1 := new(big.Int).Sub(c.Params().N, big.NewInt(1))
	d := new(big.Int).Mod(k.D, nm1)
	d.Add(d, big.NewInt(1))
	// The public point is computed from d, so the solver's (X, Y) cannot be imposed; what a
	// counterexample may depend on is their byte lengths (leading zero bytes): search nearby
	// scalars until the lengths match the model's (1 in 256 per coordinate; bounded).
	wantX, wantY := len(k.X.Bytes()), len(k.Y.Bytes())
	full := (c.Params().BitSize + 7) / 8
	search := wantX >= full-1 && wantY >= full-1 && (wantX < full || wantY < full)
	start := time.Now()
	for i := 0; ; i++ {
		x, y := c.ScalarBaseMult(d.Bytes())
		if !search || (len(x.Bytes()) == wantX && len(y.Bytes()) == wantY) || i > 400000 || time.Since(start) > 40*time.Second {
			k.D, k.X, k.Y = d, x, y
			return k
		}
		d = new(big.Int).Add(d, big.NewInt(1))
		if d.Cmp(nm1) > 0 {
			d = big.NewInt(1)
		}
	}
}

// vEcdsaSign: the signing primitive (arbitrary (r,s) in [1,N-1]^2 that the
// primitive accepts for the solver; crypto/ecdsa natively).
func vEcdsaSign(key *ecdsa.PrivateKey, digest []byte) (*big.Int, *big.Int) {
	// The solver's counterexample may need (r, s) of particular byte lengths
	// (leading zero bytes). The primitive cannot be told which (r, s) to
	// produce, so the replay searches nonces until the lengths match the model's
	// (bounded: ~2^16 tries are needed for one leading zero byte in both).
	n := vEcdsaCalls
	vEcdsaCalls++
	suffix := ""
	if n > 0 {
		suffix = fmt.Sprintf("#%d", n)
	}
	wantR, okR := vDoc.Values["env.ecdsa.r"+suffix]
	wantS, okS := vDoc.Values["env.ecdsa.s"+suffix]
	lenOf := func(v interface{}) int { return len(vToBig(v).Bytes()) }
	full := (key.Curve.Params().N.BitLen() + 7) / 8
	needSearch := okR && okS && (lenOf(wantR) < full || lenOf(wantS) < full)
	deadline := time.Now().Add(40 * time.Second)
	for try := uint64(0); ; try++ {
		r, s, err := ecdsa.Sign(&vSeedReader{seed: try}, key, digest)
		if err != nil {
			panic(err)
		}
		if !needSearch || (len(r.Bytes()) == lenOf(wantR) && len(s.Bytes()) == lenOf(wantS)) {
			return r, s
		}
		if try > 2_000_000 || time.Now().After(deadline) {
			fmt.Printf("VERIF-REPLAY-NOTE ecdsa nonce search gave up after %d tries\n", try)
			return r, s
		}
	}
}

var vEcdsaCalls int
var vUsesMapOrder bool

// vSeedReader: a deterministic byte stream per seed
type vSeedReader struct {
	seed uint64
	ctr  uint64
}

func (r *vSeedReader) Read(p []byte) (int, error) {
	for i := range p {
		r.ctr++
		x := r.seed*0x9E3779B97F4A7C15 + r.ctr*0xBF58476D1CE4E5B9
		x ^= x >> 31
		p[i] = byte(x >> 24)
	}
	return len(p), nil
}

type vZeroReader struct{}

func (vZeroReader) Read(p []byte) (int, error) {
	for i := range p {
		p[i] = 0x42
	}
	return len(p), nil
}

// vOnCurve: environment flag "point is valid for crypto/ecdh" (uninterpreted for the solver).
func vOnCurve(pub *ecdsa.PublicKey) bool {
	_, err := pub.ECDH()
	return err == nil
}

var vRSACache *rsa.PrivateKey

// vRSAKeyValid: a genuine >= 2048-bit RSA key natively; an abstract key of
// symbolic size >= 2048 for the solver.
func vRSAKeyValid(name string) *rsa.PrivateKey {
	vName(name)
	if vRSACache == nil {
		k, err := rsa.GenerateKey(cryptorand.Reader, 2048)
		if err != nil {
			panic(err)
		}
		vRSACache = k
	}
	return vRSACache
}

// vRand: the entropy source handed to signers.
// vEnvFailed: whether a primitive of the environment failed (only the solver side injects such failures)
func vEnvFailed() bool { return false }

func vRand() io.Reader { return cryptorand.Reader }

// vFailRand: an entropy source that fails on the first read (kind 0: exhausted, io.EOF; 1: io.ErrUnexpectedEOF;
// 2: a device error of its own); vIsRandErr: err is (wraps) that reader's error
type vFailReader struct{ err error }

func (r *vFailReader) Read(p []byte) (int, error) { return 0, r.err }

var vErrEntropy = errors.New("entropy device failed")

func vFailRand(kind int) io.Reader {
	return &vFailReader{err: []error{io.EOF, io.ErrUnexpectedEOF, vErrEntropy}[kind]}
}
func vIsRandErr(err error, rd io.Reader) bool {
	f, ok := rd.(*vFailReader)
	return ok && err != nil && errors.Is(err, f.err)
}

// vYieldRand: entropy source that lets other goroutines run first (a scheduling point inside the primitive)
type vYieldReader struct{}

func (vYieldReader) Read(p []byte) (int, error) {
	runtime.Gosched()
	return cryptorand.Read(p)
}
func vYieldRand() io.Reader { return vYieldReader{} }

// vInterleaved runs the bodies as goroutines on one P, so that every Gosched in vYieldRand
// switches to the other body (natively); the solver side runs them in sequence.
func vInterleaved(fs ...func()) {
	prev := runtime.GOMAXPROCS(1)
	defer runtime.GOMAXPROCS(prev)
	var wg sync.WaitGroup
	for _, f := range fs {
		wg.Add(1)
		go func(f func()) {
			defer wg.Done()
			defer func() {
				if r := recover(); r != nil {
					vFailures = append(vFailures, fmt.Sprintf("panic in interleaved body: %v", r))
				}
			}()
			f()
		}(f)
	}
	wg.Wait()
}

// non-short-circuit boolean connectives (keep symbolic conditions in one path)
func vOr(a, b bool) bool      { return a || b }
func vAnd(a, b bool) bool     { return a && b }
func vImplies(a, b bool) bool { return !a || b }

// vLogErr: native-only diagnostics
func vLogErr(tag string, err error) {
	if err != nil {
		fmt.Printf("VERIF-REPLAY-NOTE %s: %v\n", tag, err)
	}
}

// vUTF8: is s valid UTF-8 (uninterpreted for the solver)
func vUTF8(s string) bool { return utf8.ValidString(s) }

// vGarbage: bytes that are not a well-formed CBOR data item (family F2): for
// the solver an opaque buffer that every CBOR scan rejects, whose first bytes the code under test may look
// at; natively the bytes of the solver's model when the independent parser confirms they are not one
// well-formed item (e.g. a truncated item a1 01 38), else 0xff (a lone break code) repeated, or nothing.
func vGarbage(name string, lo, hi int) []byte {
	b := vBlobN(name, lo, hi)
	if len(b) > 0 && vParse(b) == nil {
		return b
	}
	for i := range b {
		b[i] = 0xff
	}
	return b
}

// vYield: a scheduling point (natively runtime.Gosched; nothing for the solver, which runs vInterleaved bodies in sequence)
func vYield() { runtime.Gosched() }

// vScribble: the owner of a byte slice overwrites its contents (whole capacity)
func vScribble(b []byte) {
	b = b[:cap(b)]
	for i := range b {
		b[i] ^= 0xa5
	}
}

// vDeepEqual: reflect.DeepEqual (distinguishes nil from empty slices and maps)
func vDeepEqual(a, b any) bool { return reflect.DeepEqual(a, b) }

// vAliases: does any byte slice / string reachable from x overlap buf's memory?
func vAliases(x any, buf []byte) bool {
	if cap(buf) == 0 {
		return false
	}
	full := buf[:cap(buf)]
	lo := uintptr(unsafe.Pointer(&full[0]))
	hi := lo + uintptr(len(full))
	found := false
	seen := map[uintptr]bool{}
	var walk func(v reflect.Value, depth int)
	walk = func(v reflect.Value, depth int) {
		if found || depth > 30 || !v.IsValid() {
			return
		}
		switch v.Kind() {
		case reflect.Slice:
			if v.Len() > 0 || v.Cap() > 0 {
				if v.Type().Elem().Kind() == reflect.Uint8 && v.Cap() > 0 {
					p := v.Pointer()
					if p < hi && p+uintptr(v.Cap()) > lo {
						found = true
						return
					}
				}
				for i := 0; i < v.Len(); i++ {
					walk(v.Index(i), depth+1)
				}
			}
		case reflect.String:
			if v.Len() > 0 {
				p := uintptr(unsafe.Pointer(unsafe.StringData(v.String())))
				if p < hi && p+uintptr(v.Len()) > lo {
					found = true
				}
			}
		case reflect.Ptr:
			if !v.IsNil() && !seen[v.Pointer()] {
				seen[v.Pointer()] = true
				walk(v.Elem(), depth+1)
			}
		case reflect.Interface:
			if !v.IsNil() {
				walk(v.Elem(), depth+1)
			}
		case reflect.Struct:
			for i := 0; i < v.NumField(); i++ {
				walk(v.Field(i), depth+1)
			}
		case reflect.Map:
			it := v.MapRange()
			for it.Next() {
				walk(it.Key(), depth+1)
				walk(it.Value(), depth+1)
			}
		case reflect.Array:
			for i := 0; i < v.Len(); i++ {
				walk(v.Index(i), depth+1)
			}
		}
	}
	walk(reflect.ValueOf(x), 0)
	return found
}

// vEdSign / vRSAPSSSign: the signing primitives of an independent implementation
func vEdSign(key ed25519.PrivateKey, msg []byte) []byte { return ed25519.Sign(key, msg) }

func vRSAPSSSign(key *rsa.PrivateKey, hash int, digest []byte) []byte {
	sig, err := rsa.SignPSS(cryptorand.Reader, key, crypto.Hash(hash), digest, &rsa.PSSOptions{SaltLength: rsa.PSSSaltLengthEqualsHash})
	if err != nil {
		panic(err)
	}
	return sig
}

// vWritesInto: number of stores (since vFreeze) into objects reachable from x
// that existed before vFreeze. Not observable natively (the native oracle for
// such properties is a deep comparison with a snapshot).
func vWritesInto(x any) int { return 0 }

// vGlobalWrites: stores into package-level variables since vFreeze (not observable natively)
func vGlobalWrites() int { return 0 }

// ---- snapshots (native oracle for the frame conditions of C12 / C18) ------------------------------------

type vSnap struct {
	copy any
}

// vSnapshot takes a deep copy of everything reachable from x.
func vSnapshot(x any) *vSnap {
	return &vSnap{copy: vDeepCopy(reflect.ValueOf(x), map[uintptr]reflect.Value{}).Interface()}
}

// vChanged: was anything reachable from x written since the snapshot?
// (solver: the interpreter's write monitor; natively: deep comparison)
func vChanged(x any, s *vSnap) bool {
	return !reflect.DeepEqual(x, s.copy)
}

func vDeepCopy(v reflect.Value, seen map[uintptr]reflect.Value) reflect.Value {
	if !v.IsValid() {
		return v
	}
	switch v.Kind() {
	case reflect.Ptr:
		if v.IsNil() {
			return reflect.Zero(v.Type())
		}
		if c, ok := seen[v.Pointer()]; ok {
			return c
		}
		if p := v.Type().Elem().PkgPath(); strings.HasPrefix(p, "crypto/elliptic") || strings.HasPrefix(p, "crypto/internal") || p == "sync" {
			return v // stdlib curve implementations (they hold funcs): shared, compared by identity
		}
		n := reflect.New(v.Type().Elem())
		seen[v.Pointer()] = n
		vCopyInto(n.Elem(), v.Elem(), seen)
		return n
	case reflect.Interface:
		if v.IsNil() {
			return reflect.Zero(v.Type())
		}
		n := reflect.New(v.Type()).Elem()
		n.Set(vDeepCopy(v.Elem(), seen))
		return n
	}
	n := reflect.New(v.Type()).Elem()
	vCopyInto(n, v, seen)
	return n
}

func vCopyInto(dst, src reflect.Value, seen map[uintptr]reflect.Value) {
	if !dst.CanSet() {
		dst = reflect.NewAt(dst.Type(), unsafe.Pointer(dst.UnsafeAddr())).Elem()
	}
	if !src.CanInterface() && src.CanAddr() {
		src = reflect.NewAt(src.Type(), unsafe.Pointer(src.UnsafeAddr())).Elem()
	}
	switch src.Kind() {
	case reflect.Struct:
		// addressable copy of src so that unexported fields can be read
		if !src.CanAddr() {
			tmp := reflect.New(src.Type()).Elem()
			tmp.Set(src)
			src = tmp
		}
		for i := 0; i < src.NumField(); i++ {
			vCopyInto(dst.Field(i), src.Field(i), seen)
		}
	case reflect.Slice:
		if src.IsNil() {
			return
		}
		n := reflect.MakeSlice(src.Type(), src.Len(), src.Cap())
		for i := 0; i < src.Len(); i++ {
			vCopyInto(n.Index(i), src.Index(i), seen)
		}
		dst.Set(n)
	case reflect.Map:
		if src.IsNil() {
			return
		}
		n := reflect.MakeMapWithSize(src.Type(), src.Len())
		it := src.MapRange()
		for it.Next() {
			n.SetMapIndex(vDeepCopy(it.Key(), seen), vDeepCopy(it.Value(), seen))
		}
		dst.Set(n)
	case reflect.Ptr, reflect.Interface:
		c := vDeepCopy(src, seen)
		if c.IsValid() {
			dst.Set(c)
		}
	case reflect.Array:
		for i := 0; i < src.Len(); i++ {
			vCopyInto(dst.Index(i), src.Index(i), seen)
		}
	case reflect.Func, reflect.Chan, reflect.UnsafePointer:
		// shared as is
		if src.CanInterface() {
			dst.Set(src)
		}
	default:
		dst.Set(src)
	}
}

func vMapOrderOff() {}

// primitive verdicts (uninterpreted for the solver; the real primitives natively)
func vEdVerdict(pub ed25519.PublicKey, msg, sig []byte) bool {
	return len(pub) == ed25519.PublicKeySize && ed25519.Verify(pub, msg, sig)
}

func vRSAVerdict(pub *rsa.PublicKey, hash int, digest, sig []byte) bool {
	return rsa.VerifyPSS(pub, crypto.Hash(hash), digest, sig, &rsa.PSSOptions{SaltLength: rsa.PSSSaltLengthEqualsHash}) == nil
}

// vExpectBool / vExpectInt: differential hooks. The symbolic run stores the
// model's value of an observable with the witness; the native replay compares
// it with what the real code produced.
func vExpectBool(name string, actual bool) {
	n := "expect:" + vName("x:"+name)
	if v, ok := vDoc.Values[n]; ok {
		if want, isB := v.(bool); isB && want != actual {
			vFailures = append(vFailures, "model mismatch: "+name)
			fmt.Printf("VERIF-REPLAY-VIOLATION model mismatch on %s: model %v, real code %v\n", name, want, actual)
		}
	}
}

func vExpectInt(name string, actual int) {
	n := "expect:" + vName("x:"+name)
	if v, ok := vDoc.Values[n]; ok {
		if want := vToBig(v).Int64(); want != int64(actual) {
			vFailures = append(vFailures, "model mismatch: "+name)
			fmt.Printf("VERIF-REPLAY-VIOLATION model mismatch on %s: model %d, real code %d\n", name, want, actual)
		}
	}
}
