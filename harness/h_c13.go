//go:build verif

package cose

import "github.com/fxamacker/cbor/v2"

func init() {
	vRegister("H_C13_encode_single", H_C13_encode_single)
	vRegister("H_C13_encode_pairs", H_C13_encode_pairs)
	vRegister("H_C13_encode_dup", H_C13_encode_dup)
	vRegister("H_C13_decode_single", H_C13_decode_single)
	vRegister("H_C13_decode_pairs", H_C13_decode_pairs)
	vRegister("H_C13_cross_bucket", H_C13_cross_bucket)
	vRegister("H_C13_encode_carriers", H_C13_encode_carriers)
}

// ---- neutral description of a header entry and the RFC 9052 section 3.1 rules -------------------------

const (
	skNil = iota
	skBool
	skUint
	skNint
	skTstr
	skBstr
	skArray
	skMap
	skCsig
	skCsigList
	skFloat
	skOther
)

type specLabel struct {
	isInt bool
	i     int64
	s     string
	bad   bool // not an int-within-int64 / tstr
}

type specEntry struct {
	label specLabel
	kind  int
	str   string      // text value
	arr   []specLabel // array value: its elements seen as labels (bad=true for non-label elements)
}

func specLabelEq(a, b specLabel) bool {
	if a.bad || b.bad || a.isInt != b.isInt {
		return false
	}
	if a.isInt {
		return a.i == b.i
	}
	return a.s == b.s
}

func specContentTypeOK(e specEntry) bool {
	if e.kind == skUint {
		return true
	}
	if e.kind != skTstr {
		return false
	}
	v := e.str
	if len(v) == 0 || v[0] == ' ' || v[len(v)-1] == ' ' {
		return false
	}
	slashes := 0
	for i := 0; i < len(v); i++ {
		if v[i] == '/' {
			slashes++
		}
	}
	return slashes == 1
}

// specHeaderOK: RFC 9052 section 3.1 as restated by the property, over CBOR-level labels
func specHeaderOK(es []specEntry, protected bool) bool {
	for i, e := range es {
		if e.label.bad {
			return false
		}
		for j := 0; j < i; j++ {
			if specLabelEq(es[j].label, e.label) {
				return false
			}
		}
	}
	has := func(l int64) bool {
		for _, e := range es {
			if e.label.isInt && e.label.i == l {
				return true
			}
		}
		return false
	}
	for _, e := range es {
		if !e.label.isInt {
			continue
		}
		switch e.label.i {
		case 1: // alg
			if e.kind != skUint && e.kind != skNint && e.kind != skTstr {
				return false
			}
		case 2: // crit
			if !protected || e.kind != skArray || len(e.arr) == 0 {
				return false
			}
			for _, l := range e.arr {
				if l.bad {
					return false
				}
				found := false
				for _, o := range es {
					if specLabelEq(o.label, l) {
						found = true
					}
				}
				if !found {
					return false
				}
			}
		case 3, 16:
			if !specContentTypeOK(e) {
				return false
			}
		case 4:
			if e.kind != skBstr {
				return false
			}
		case 5:
			if e.kind != skBstr || has(6) {
				return false
			}
		case 6:
			if e.kind != skBstr || has(5) {
				return false
			}
		case 7, 11:
			if protected || (e.kind != skCsig && e.kind != skCsigList) {
				return false
			}
		case 9, 12:
			if protected || e.kind != skBstr {
				return false
			}
		}
	}
	return true
}

// ---- Go-side generators ---------------------------------------------------------------------------------

// c13GoLabel: a label of any Go spelling and its CBOR-level identity
func c13GoLabel(name string, kinds int) (any, specLabel) {
	k := vChoose(name+".lkind", kinds)
	if kinds == 5 { // reduced set: int64, int, uint8, string, not-a-label
		k = []int{0, 1, 6, 10, 11}[k]
	}
	if kinds == 6 { // int64, int, uint8, uint64, string, not-a-label
		k = []int{0, 1, 6, 9, 10, 11}[k]
	}
	if kinds == 3 { // int64, int, uint8
		k = []int{0, 1, 6}[k]
	}
	switch {
	case k < 10:
		v := vInt64(name + ".lv")
		l := mkIntOfKind(k, v)
		_, iv, _, _, big := normLabel(l)
		return l, specLabel{isInt: true, i: iv, bad: big}
	case k == 10:
		s := vStr(name+".ls", 2)
		vAssume(vUTF8(s)) // Go strings handed to the library are text
		return s, specLabel{s: s}
	}
	return vBool(name + ".lb"), specLabel{bad: true}
}

func c13ValidCountersignature(name string) *Countersignature {
	return &Countersignature{
		Headers:   Headers{Protected: ProtectedHeader{HeaderLabelAlgorithm: AlgorithmES256}, Unprotected: UnprotectedHeader{}},
		Signature: vBlobN(name+".cs.sig", 1, 64),
	}
}

// c13GoValue: a header value of one of 15 Go kinds and its CBOR-level description
func c13GoValue(name string, full bool) (any, specEntry) {
	n := 16
	if !full {
		n = 2
		if vTier() == 1 {
			n = 3
		}
	}
	switch vChoose(name+".vkind", n) {
	case 0:
		return vBlob(name + ".vb"), specEntry{kind: skBstr}
	case 1:
		v := vInt64(name + ".vi")
		if v >= 0 {
			return v, specEntry{kind: skUint}
		}
		return v, specEntry{kind: skNint}
	case 2:
		s := vStr(name+".vs", 4)
		vAssume(vUTF8(s))
		return s, specEntry{kind: skTstr, str: s}
	case 3:
		return nil, specEntry{kind: skNil}
	case 4:
		return vBool(name + ".vt"), specEntry{kind: skBool}
	case 5:
		return vUint64(name + ".vu"), specEntry{kind: skUint}
	case 6:
		v := int8(vInt64(name + ".vi8"))
		if v >= 0 {
			return v, specEntry{kind: skUint}
		}
		return v, specEntry{kind: skNint}
	case 7:
		a := Algorithm(vInt64(name + ".va"))
		if a >= 0 {
			return a, specEntry{kind: skUint}
		}
		return a, specEntry{kind: skNint}
	case 8: // array of labels (crit style), 1..2 elements
		var arr []any
		var sl []specLabel
		cnt := 1 + vChoose(name+".an", 2)
		for i := 0; i < cnt; i++ {
			l, s := c13GoLabel(name+".a"+string(rune('0'+i)), 5)
			arr = append(arr, l)
			sl = append(sl, s)
		}
		return arr, specEntry{kind: skArray, arr: sl}
	case 9:
		return []any{}, specEntry{kind: skArray}
	case 10:
		return map[any]any{int64(1): vBlob(name + ".vm")}, specEntry{kind: skMap}
	case 11:
		return c13ValidCountersignature(name), specEntry{kind: skCsig}
	case 12:
		return []*Countersignature{c13ValidCountersignature(name + ".0"), c13ValidCountersignature(name + ".1")}, specEntry{kind: skCsigList}
	case 13:
		return 1.5, specEntry{kind: skFloat}
	case 15: // a nil byte slice (e.g. the unset ID of a key): the encoder writes null for it
		return []byte(nil), specEntry{kind: skNil}
	}
	return uint16(vInt64(name + ".vu16")), specEntry{kind: skUint}
}

func c13Marshal(m map[any]any, protected bool) error {
	if protected {
		_, err := ProtectedHeader(m).MarshalCBOR()
		return err
	}
	_, err := UnprotectedHeader(m).MarshalCBOR()
	return err
}

// c13Focus: in the quick tier the pair harnesses look at the labels whose rules
// interact (crit 2, kid 4, IV 5, Partial IV 6, countersignature 7) and one
// unregistered label; the thorough tier leaves the label value unconstrained.
func c13Focus(l specLabel) {
	if vTier() == 1 || !l.isInt || l.bad {
		return
	}
	vAssume(vOr(vOr(vOr(l.i == 2, l.i == 4), vOr(l.i == 5, l.i == 6)), vOr(l.i == 7, l.i == 1000)))
}

// one entry: 12 label spellings x 15 value kinds x 2 buckets, label and value contents symbolic
func H_C13_encode_single() {
	protected := vChoose("bucket", 2) == 0
	l, sl := c13GoLabel("e0", 12)
	v, se := c13GoValue("e0", true)
	se.label = sl
	if _, isAlg := v.(Algorithm); isAlg {
		// the typed Algorithm value belongs to the alg parameter only
		vAssume(vAnd(sl.isInt, sl.i == 1))
	}
	vKnown("KF-C13-4", sl.bad && sl.isInt)
	err := c13Marshal(map[any]any{l: v}, protected)
	if specHeaderOK([]specEntry{se}, protected) {
		vAssert("encode: a header obeying RFC 9052 3.1 is encoded", err == nil)
	} else {
		vAssert("encode: a header violating RFC 9052 3.1 is refused", err != nil)
	}
	vReach("end")
}

type c13Bytes []byte

// other Go carriers of a value (pre-encoded items, named byte-slice types, byte arrays):
// whatever the encoder lets through obeys section 3.1 on the wire and is accepted back by the decoder
func H_C13_encode_carriers() {
	protected := vChoose("bucket", 2) == 0
	l, sl := c13GoLabel("e0", 3)
	var v any
	var se specEntry
	switch vChoose("carrier", 3) {
	case 0:
		wn, wse := c13WireValue("e0.raw", true)
		v, se = cbor.RawMessage(vSer(wn)), wse
	case 1:
		v, se = c13Bytes(vBlob("e0.nb")), specEntry{kind: skBstr}
	case 2:
		v, se = [2]byte{vByte("e0.a0"), vByte("e0.a1")}, specEntry{kind: skBstr}
	}
	se.label = sl
	var data []byte
	var err error
	if protected {
		data, err = ProtectedHeader(map[any]any{l: v}).MarshalCBOR()
	} else {
		data, err = UnprotectedHeader(map[any]any{l: v}).MarshalCBOR()
	}
	if err != nil {
		vReach("refused")
		return
	}
	vAssert("encode: what is produced obeys RFC 9052 3.1", specHeaderOK([]specEntry{se}, protected))
	var derr error
	if protected {
		var back ProtectedHeader
		derr = back.UnmarshalCBOR(data)
	} else {
		var back UnprotectedHeader
		derr = back.UnmarshalCBOR(data)
	}
	vAssert("encode: what is produced is accepted by the decoder", derr == nil)
	vReach("end")
}

// two entries: interactions (duplicates across spellings, IV / Partial IV, crit and its referents)
func H_C13_encode_pairs() {
	vMapOrder()
	protected := vChoose("bucket", 2) == 0
	kinds := 3
	if vTier() == 1 {
		kinds = 11
	}
	l0, s0 := c13GoLabel("e0", kinds)
	l1, s1 := c13GoLabel("e1", kinds)
	c13Focus(s0)
	c13Focus(s1)
	// Go-level map keys must differ (same Go type and value would be one entry)
	v0, se0 := c13GoValue("e0", false)
	var v1 any
	var se1 specEntry
	if vChoose("e1.crit", 2) == 0 {
		v1, se1 = c13GoValue("e1", false)
	} else {
		// a crit-style array referring to one label
		cl, cs := c13GoLabel("e1.c", kinds)
		c13Focus(cs)
		v1, se1 = []any{cl}, specEntry{kind: skArray, arr: []specLabel{cs}}
	}
	se0.label, se1.label = s0, s1
	m := map[any]any{l0: v0}
	if _, dup := m[l1]; dup {
		vReach("same go key")
		return
	}
	m[l1] = v1
	vKnown("KF-C13-4", vOr(s0.bad && s0.isInt, s1.bad && s1.isInt))
	err := c13Marshal(m, protected)
	if specHeaderOK([]specEntry{se0, se1}, protected) {
		vAssert("encode/2: a header obeying RFC 9052 3.1 is encoded", err == nil)
	} else {
		vAssert("encode/2: a header violating RFC 9052 3.1 is refused", err != nil)
	}
	vReach("end")
}

// one label under two Go spellings, the value of the label fully symbolic in both tiers (all of int64, not
// only the registered parameters): always a duplicate on the wire, always refused
func H_C13_encode_dup() {
	vMapOrder()
	protected := vChoose("bucket", 2) == 0
	l0, s0 := c13GoLabel("e0", 10)
	l1, s1 := c13GoLabel("e1", 10)
	vAssume(!s0.bad && !s1.bad && s0.i == s1.i)
	// values every parameter admits in neither bucket are beside the point: unregistered labels take anything,
	// registered ones are refused for a second reason at most
	m := map[any]any{l0: vBlob("e0.vb")}
	if _, dup := m[l1]; dup {
		vReach("same go key")
		return
	}
	m[l1] = vBlob("e1.vb")
	err := c13Marshal(m, protected)
	vAssert("encode/dup: one label spelt with two Go integer types is refused", err != nil)
	vReach("end")
}

// ---- wire-side generators ----------------------------------------------------------------------------------

func c13WireLabel(name string, inValue bool) (*vNodeT, specLabel) {
	lk := 4
	if c13Narrow {
		lk = 2
	}
	switch vChoose(name+".lkind", lk) {
	case 0, 1:
		sign := vChoose(name+".lsign", 2)
		mag := vUint64(name + ".lmag")
		if inValue {
			vAssume(mag <= 1<<63-1) // documented limit: integers inside values within int64
		}
		n := nnInt(sign, mag, vWidth(name+".lw", mag))
		if mag > 1<<63-1 {
			return n, specLabel{bad: true, isInt: true}
		}
		if sign == 0 {
			return n, specLabel{isInt: true, i: int64(mag)}
		}
		return n, specLabel{isInt: true, i: -1 - int64(mag)}
	case 2:
		s := vStr(name+".ls", 2)
		vAssume(vUTF8(s))
		return nnTstr(s, vWidth(name+".lw", uint64(len(s)))), specLabel{s: s}
	}
	b := vBlobN(name+".lb", 0, 8)
	return nnBstr(b, -1), specLabel{bad: true}
}

func c13WireCountersignature(name string) *vNodeT {
	algv := nnInt(1, 6, -1) // ES256
	prot := nnBstr(vSer(nnMap([]*vNodeT{nnInt(0, 1, -1), algv}, -1)), -1)
	sig := vBlobN(name+".cs.sig", 1, 64)
	return nnArray([]*vNodeT{prot, nnMap(nil, -1), nnBstr(sig, vWidth(name+".cs.w", uint64(len(sig))))}, -1)
}

func c13WireValue(name string, full bool) (*vNodeT, specEntry) {
	n := 13
	if !full {
		n = 2
		if vTier() == 1 {
			n = 3
		}
	}
	switch vChoose(name+".vkind", n) {
	case 0:
		b := vBlob(name + ".vb")
		return nnBstr(b, vWidth(name+".vw", uint64(len(b)))), specEntry{kind: skBstr}
	case 1:
		sign := vChoose(name+".vsign", 2)
		mag := vUint64(name + ".vmag")
		vAssume(mag <= 1<<63-1)
		k := skUint
		if sign == 1 {
			k = skNint
		}
		return nnInt(sign, mag, vWidth(name+".vw", mag)), specEntry{kind: k}
	case 2:
		s := vStr(name+".vs", 4)
		vAssume(vUTF8(s))
		return nnTstr(s, vWidth(name+".vw", uint64(len(s)))), specEntry{kind: skTstr, str: s}
	case 3:
		return nnSimple(22, 0), specEntry{kind: skNil}
	case 4:
		return nnSimple(20+uint64(vChoose(name+".vt", 2)), 0), specEntry{kind: skBool}
	case 5:
		var kids []*vNodeT
		var sl []specLabel
		cnt := 1 + vChoose(name+".an", 2)
		for i := 0; i < cnt; i++ {
			l, s := c13WireLabel(name+".a"+string(rune('0'+i)), true)
			kids = append(kids, l)
			sl = append(sl, s)
		}
		return nnArray(kids, vWidth(name+".vw", uint64(cnt))), specEntry{kind: skArray, arr: sl}
	case 6:
		return nnArray(nil, vWidth(name+".vw", 0)), specEntry{kind: skArray}
	case 7:
		return nnMap([]*vNodeT{nnInt(0, 1, -1), nnBstr(vBlob(name+".vm"), -1)}, -1), specEntry{kind: skMap}
	case 8:
		return c13WireCountersignature(name), specEntry{kind: skCsig}
	case 9:
		return nnArray([]*vNodeT{c13WireCountersignature(name + ".0"), c13WireCountersignature(name + ".1")}, -1), specEntry{kind: skCsigList}
	case 10:
		return nnSimple(vUint64(name+".vf"), 8), specEntry{kind: skFloat}
	case 11: // an array that is neither a countersignature nor a list of them
		return nnArray([]*vNodeT{nnInt(0, 7, -1), nnInt(0, 8, -1), nnInt(0, 9, -1)}, -1), specEntry{kind: skArray, arr: []specLabel{{isInt: true, i: 7}, {isInt: true, i: 8}, {isInt: true, i: 9}}}
	}
	return nnSimple(23, 0), specEntry{kind: skNil} // undefined decodes as nil
}

func c13Unmarshal(m *vNodeT, protected bool) error {
	if protected {
		var h ProtectedHeader
		content := vSer(m)
		return h.UnmarshalCBOR(vSer(nnBstr(content, vWidth("bw", uint64(len(content))))))
	}
	var h UnprotectedHeader
	return h.UnmarshalCBOR(vSer(m))
}

func H_C13_decode_single() {
	protected := vChoose("bucket", 2) == 0
	l, sl := c13WireLabel("e0", false)
	v, se := c13WireValue("e0", true)
	se.label = sl
	err := c13Unmarshal(nnMap([]*vNodeT{l, v}, vWidth("mw", 1)), protected)
	if specHeaderOK([]specEntry{se}, protected) {
		vAssert("decode: a header obeying RFC 9052 3.1 is accepted", err == nil)
	} else {
		vAssert("decode: a header violating RFC 9052 3.1 is refused", err != nil)
	}
	vReach("end")
}

var c13Narrow bool

func H_C13_decode_pairs() {
	vMapOrder()
	c13Narrow = vTier() == 0 // quick: integer labels only (text / invalid labels are covered by the single-entry grid)
	protected := vChoose("bucket", 2) == 0
	l0, s0 := c13WireLabel("e0", false)
	l1, s1 := c13WireLabel("e1", false)
	c13Focus(s0)
	c13Focus(s1)
	v0, se0 := c13WireValue("e0", false)
	var v1 *vNodeT
	var se1 specEntry
	if vChoose("e1.crit", 2) == 0 {
		v1, se1 = c13WireValue("e1", false)
	} else {
		cl, cs := c13WireLabel("e1.c", true)
		v1, se1 = nnArray([]*vNodeT{cl}, -1), specEntry{kind: skArray, arr: []specLabel{cs}}
	}
	se0.label, se1.label = s0, s1
	err := c13Unmarshal(nnMap([]*vNodeT{l0, v0, l1, v1}, vWidth("mw", 2)), protected)
	if specHeaderOK([]specEntry{se0, se1}, protected) {
		vAssert("decode/2: a header obeying RFC 9052 3.1 is accepted", err == nil)
	} else {
		vAssert("decode/2: a header violating RFC 9052 3.1 is refused", err != nil)
	}
	vReach("end")
}

// IV in one bucket and Partial IV in the other, on encode and on decode
func H_C13_cross_bucket() {
	lp, sp := c13GoLabel("p", 10)
	lu, su := c13GoLabel("u", 10)
	vAssume(!sp.bad && !su.bad)
	vAssume(vOr(sp.i == 5, sp.i == 6))
	vAssume(vOr(su.i == 5, su.i == 6))
	clash := sp.i != su.i
	// the layer under test sits in every structure that has headers
	h := Headers{Protected: ProtectedHeader{lp: vBlob("pv")}, Unprotected: UnprotectedHeader{lu: vBlob("uv")}}
	plain := Headers{Protected: ProtectedHeader{}, Unprotected: UnprotectedHeader{}}
	sig := vBlobN("sig", 1, 64)
	pm := nnMap([]*vNodeT{nnInt(0, uint64(sp.i), -1), nnBstr(vBlob("wpv"), -1)}, -1)
	um := nnMap([]*vNodeT{nnInt(0, uint64(su.i), -1), nnBstr(vBlob("wuv"), -1)}, -1)
	wl := []*vNodeT{nnBstr(vSer(pm), -1), um} // the layer on the wire
	wplain := []*vNodeT{nnBstr([]byte{}, -1), nnMap(nil, -1)}
	wsig := nnBstr(vBlobN("wsig", 1, 64), -1)
	wpl := nnBstr(vBlob("wpl"), -1)
	var err, derr error
	switch vChoose("structure", 7) {
	case 0:
		_, err = (&Sign1Message{Headers: h, Payload: vBlob("payload"), Signature: sig}).MarshalCBOR()
		var d Sign1Message
		derr = d.UnmarshalCBOR(vSer(nnTag(18, nnArray([]*vNodeT{wl[0], wl[1], wpl, wsig}, 0), 0)))
	case 1:
		_, err = (&UntaggedSign1Message{Headers: h, Payload: vBlob("payload"), Signature: sig}).MarshalCBOR()
		var d UntaggedSign1Message
		derr = d.UnmarshalCBOR(vSer(nnArray([]*vNodeT{wl[0], wl[1], wpl, wsig}, 0)))
	case 2: // body of a COSE_Sign
		_, err = (&SignMessage{Headers: h, Payload: vBlob("payload"), Signatures: []*Signature{{Headers: plain, Signature: sig}}}).MarshalCBOR()
		var d SignMessage
		derr = d.UnmarshalCBOR(vSer(nnTag(98, nnArray([]*vNodeT{wl[0], wl[1], wpl, nnArray([]*vNodeT{nnArray([]*vNodeT{wplain[0], wplain[1], wsig}, 0)}, 0)}, 0), 1)))
	case 3: // a signer inside a COSE_Sign
		_, err = (&SignMessage{Headers: plain, Payload: vBlob("payload"), Signatures: []*Signature{{Headers: h, Signature: sig}}}).MarshalCBOR()
		var d SignMessage
		derr = d.UnmarshalCBOR(vSer(nnTag(98, nnArray([]*vNodeT{wplain[0], wplain[1], wpl, nnArray([]*vNodeT{nnArray([]*vNodeT{wl[0], wl[1], wsig}, 0)}, 0)}, 0), 1)))
	case 4:
		_, err = (&Signature{Headers: h, Signature: sig}).MarshalCBOR()
		var d Signature
		derr = d.UnmarshalCBOR(vSer(nnArray([]*vNodeT{wl[0], wl[1], wsig}, 0)))
	case 5:
		_, err = (&Countersignature{Headers: h, Signature: sig}).MarshalCBOR()
		var d Countersignature
		derr = d.UnmarshalCBOR(vSer(nnArray([]*vNodeT{wl[0], wl[1], wsig}, 0)))
	case 6: // a countersignature carried as a header value
		outer := Headers{Protected: ProtectedHeader{}, Unprotected: UnprotectedHeader{HeaderLabelCounterSignatureV2: &Countersignature{Headers: h, Signature: sig}}}
		_, err = (&Sign1Message{Headers: outer, Payload: vBlob("payload"), Signature: vBlobN("osig", 1, 64)}).MarshalCBOR()
		var d Sign1Message
		cs := nnArray([]*vNodeT{wl[0], wl[1], wsig}, 0)
		derr = d.UnmarshalCBOR(vSer(nnTag(18, nnArray([]*vNodeT{wplain[0], nnMap([]*vNodeT{nnInt(0, 11, -1), cs}, -1), wpl, nnBstr(vBlobN("wosig", 1, 64), -1)}, 0), 0)))
	}
	if clash {
		vAssert("cross: IV and Partial IV in different buckets of one layer refused on encode", err != nil)
		vAssert("cross: IV and Partial IV in different buckets of one layer refused on decode", derr != nil)
	} else {
		vAssert("cross: the same parameter in both buckets is not the IV/PIV rule", err == nil)
		vAssert("cross: accepted on decode", derr == nil)
	}
	vReach("end")
}
