//go:build verif

package cose

func init() {
	vRegister("H_C10_constructed", H_C10_constructed)
	vRegister("H_C10_decoded_parent", H_C10_decoded_parent)
	vRegister("H_C10_refusals", H_C10_refusals)
	vRegister("H_C10_independence", H_C10_independence)
	vRegister("H_C10_concurrent", H_C10_concurrent)
}

// refCountersignCheck: content must be the deterministic encoding of
// [context, parentProt, signProt, external, payloadOrSig, [parentSig]?]
func refCountersignCheck(tag string, content []byte, context string, parentProt, signProt, external, body []byte, other []byte, hasOther bool) {
	t := vParse(content)
	vAssert(tag+": ToBeSigned is one CBOR item", t != nil)
	if t == nil {
		return
	}
	want := 5
	if hasOther {
		want = 6
	}
	ok := nMajor(t) == 4 && nMinimal(t) && nLen(t) == want
	vAssert(tag+": Countersign_structure arity", ok)
	if !ok {
		return
	}
	c := nChild(t, 0)
	vAssert(tag+": context string", nMajor(c) == 3 && nMinimal(c) && string(nBytes(c)) == context)
	for i, exp := range [][]byte{parentProt, signProt, external, body} {
		n := nChild(t, 1+i)
		vAssert(tag+": field "+vItoa(i+1)+" is a bstr with shortest head", nMajor(n) == 2 && nMinimal(n))
		vAssert(tag+": field "+vItoa(i+1)+" content", vRopeEq(nBytes(n), exp))
	}
	if hasOther {
		o := nChild(t, 5)
		ok := nMajor(o) == 4 && nMinimal(o) && nLen(o) == 1
		vAssert(tag+": other_fields is a 1-array", ok)
		if ok {
			s := nChild(o, 0)
			vAssert(tag+": other_fields[0] is the parent's signature as a bstr", nMajor(s) == 2 && nMinimal(s) && vRopeEq(nBytes(s), other))
		}
	}
}

// c10Parent: a constructed parent of one of the four kinds, as pointer or value
type c10ParentInfo struct {
	parent   any
	prot     ProtectedHeader // the parent's protected header (constructed)
	payload  []byte          // payload (messages) or nil
	sig      []byte          // the parent's own signature (Sign1, Signature, Countersignature)
	kind     int             // 0 Sign1 1 Sign 2 Signature 3 Countersignature
	hasOther bool
}

// c10LeanParent: fixed one-entry header maps (callers for which the parent's header content is not the subject)
var c10LeanParent bool

func mkC10Parent(name string) c10ParentInfo {
	pi := c10ParentInfo{kind: vChoose(name+".kind", 4)}
	var un UnprotectedHeader
	if c10LeanParent {
		pi.prot = ProtectedHeader{int64(1000): vBlob(name + ".pv")}
		un = UnprotectedHeader{int64(1001): vBlob(name + ".uv")}
	} else {
		pi.prot = ProtectedHeader(mkBenignMap(name+".p", 1+vTier(), vTier() == 1))
		un = UnprotectedHeader(mkBenignMap(name+".u", 1+vTier(), false))
	}
	h := Headers{Protected: pi.prot, Unprotected: un}
	ptr := vChoose(name+".ptr", 2) == 0
	pi.sig = vBlobN(name+".sig", 1, 1<<20)
	switch pi.kind {
	case 0:
		pi.payload = vBlob(name + ".payload")
		pi.hasOther = true
		m := Sign1Message{Headers: h, Payload: pi.payload, Signature: pi.sig}
		if ptr {
			pi.parent = &m
		} else {
			pi.parent = m
		}
	case 1:
		pi.payload = vBlob(name + ".payload")
		m := SignMessage{Headers: h, Payload: pi.payload, Signatures: []*Signature{{Headers: Headers{Protected: ProtectedHeader{}, Unprotected: UnprotectedHeader{}}, Signature: pi.sig}}}
		if ptr {
			pi.parent = &m
		} else {
			pi.parent = m
		}
	case 2:
		s := Signature{Headers: h, Signature: pi.sig}
		if ptr {
			pi.parent = &s
		} else {
			pi.parent = s
		}
	case 3:
		s := Countersignature{Headers: h, Signature: pi.sig}
		if ptr {
			pi.parent = &s
		} else {
			pi.parent = s
		}
	}
	return pi
}

func protContentOf(h ProtectedHeader) []byte {
	// the bstr content of the encoded protected header, via the reference parser
	b, err := h.MarshalCBOR()
	if err != nil {
		return nil
	}
	n := vParse(b)
	if n == nil || nMajor(n) != 2 {
		return nil
	}
	return nBytes(n)
}

// full and abbreviated countersignatures over constructed parents of every kind
func H_C10_constructed() {
	pi := mkC10Parent("parent")
	ext := mkExternal("ext")
	sp := &spySigner{alg: Algorithm(vInt64("alg")), sig: vBlobN("cs.sig", 1, 100)}
	abbreviated := vChoose("abbreviated", 2) == 1
	var signProt []byte
	var err error
	if abbreviated {
		_, err = Countersign0(nil, sp, pi.parent, ext)
		signProt = []byte{}
	} else {
		cs := &Countersignature{Headers: Headers{Protected: ProtectedHeader(mkBenignMap("cs.p", 1, false)), Unprotected: UnprotectedHeader{}}}
		err = cs.Sign(nil, sp, pi.parent, ext)
		if err == nil {
			signProt = protContentOf(cs.Headers.Protected)
		}
	}
	vAssert("constructed: a signed parent with payload can be countersigned", err == nil)
	if err != nil {
		return
	}
	ctx := "CounterSignature"
	if abbreviated {
		ctx = "CounterSignature0"
	}
	if pi.hasOther {
		ctx += "V2"
	}
	body := pi.payload
	if pi.kind >= 2 {
		body = pi.sig
	}
	refCountersignCheck("constructed", sp.content, ctx, protContentOf(pi.prot), signProt, ext, body, pi.sig, pi.hasOther)
	// verification recomputes the same bytes
	sv := &spyVerifier{alg: sp.alg}
	if abbreviated {
		vAssert("constructed: VerifyCountersign0 proceeds", VerifyCountersign0(sv, pi.parent, ext, sp.sig) == nil)
		vAssert("constructed: verifier sees the signed bytes", vRopeEq(sv.content, sp.content))
	}
	vReach("end")
}

// decoded parent (COSE_Sign1 / COSE_Signature): the parent's received protected bytes are covered, not a re-encoding
func H_C10_decoded_parent() {
	pp, pcontent := mkWireProtected("parent.p", 2)
	pu := mkWireHeaderMap("parent.u", 1)
	psig := vBlobN("parent.sig", 1, 1<<20)
	sgn := nnBstr(psig, vWidth("parent.sigw", uint64(len(psig))))
	payload := vBlob("parent.payload")
	var parent any
	kind := vChoose("parent.kind", 2)
	if kind == 0 {
		var m Sign1Message
		vAssume(m.UnmarshalCBOR(vSer(nnTag(18, nnArray([]*vNodeT{pp, pu, nnBstr(payload, vWidth("parent.plw", uint64(len(payload)))), sgn}, 0), 0))) == nil)
		parent = &m
	} else {
		var s Signature
		vAssume(s.UnmarshalCBOR(vSer(nnArray([]*vNodeT{pp, pu, sgn}, 0))) == nil)
		parent = &s
	}
	ext := mkExternal("ext")
	sp := &spySigner{alg: Algorithm(vInt64("alg")), sig: vBlobN("cs.sig", 1, 100)}
	abbreviated := vChoose("abbreviated", 2) == 1
	var err error
	signProt := []byte{}
	if abbreviated {
		_, err = Countersign0(nil, sp, parent, ext)
	} else {
		cs := NewCountersignature()
		err = cs.Sign(nil, sp, parent, ext)
		if err == nil {
			signProt = protContentOf(cs.Headers.Protected)
		}
	}
	vAssert("decoded parent: can be countersigned", err == nil)
	if err != nil {
		return
	}
	ctx := "CounterSignature"
	if abbreviated {
		ctx = "CounterSignature0"
	}
	body := payload
	if kind == 0 {
		ctx += "V2"
	} else {
		body = psig
	}
	refCountersignCheck("decoded parent", sp.content, ctx, pcontent, signProt, ext, body, psig, kind == 0)
	vReach("end")
}

// unsigned / payload-less / unsupported parents are refused and the key is not used
func H_C10_refusals() {
	sp := &spySigner{alg: AlgorithmES256, sig: vBlobN("cs.sig", 1, 100)}
	sv := &spyVerifier{alg: AlgorithmES256}
	h := Headers{Protected: ProtectedHeader{}, Unprotected: UnprotectedHeader{}}
	var parent any
	switch vChoose("bad", 9) {
	case 0:
		parent = &Sign1Message{Headers: h, Payload: vBlob("p"), Signature: nil}
	case 1:
		parent = &Sign1Message{Headers: h, Payload: nil, Signature: vBlobN("s", 1, 10)}
	case 2:
		parent = &SignMessage{Headers: h, Payload: vBlob("p")}
	case 3:
		parent = &SignMessage{Headers: h, Payload: nil, Signatures: []*Signature{{Headers: h, Signature: vBlobN("s", 1, 10)}}}
	case 4:
		parent = &Signature{Headers: h}
	case 5:
		parent = &Countersignature{Headers: h, Signature: []byte{}}
	case 6:
		parent = nil
	case 7:
		parent = &Key{Type: KeyTypeOKP}
	case 8:
		parent = 42
	}
	ext := mkExternal("ext")
	cs := NewCountersignature()
	vAssert("refusal: Countersignature.Sign refuses", cs.Sign(nil, sp, parent, ext) != nil)
	_, e0 := Countersign0(nil, sp, parent, ext)
	vAssert("refusal: Countersign0 refuses", e0 != nil)
	vAssert("refusal: the signer is never called", sp.calls == 0)
	signed := &Countersignature{Headers: Headers{Protected: ProtectedHeader{HeaderLabelAlgorithm: AlgorithmES256}, Unprotected: UnprotectedHeader{}}, Signature: vBlobN("cssig", 1, 10)}
	vAssert("refusal: Countersignature.Verify refuses", signed.Verify(sv, parent, ext) != nil)
	vAssert("refusal: VerifyCountersign0 refuses", VerifyCountersign0(sv, parent, ext, vBlobN("s0", 1, 10)) != nil)
	vAssert("refusal: the verifier is never called", sv.calls == 0)
	vReach("end")
}

// the parent's unprotected bucket contributes nothing; contexts keep the forms apart
func H_C10_independence() {
	prot := ProtectedHeader(mkBenignMap("p", 1, false))
	payload := vBlob("payload")
	sig := vBlobN("sig", 1, 1000)
	a := &Sign1Message{Headers: Headers{Protected: prot, Unprotected: UnprotectedHeader(mkBenignMap("ua", 1, false))}, Payload: payload, Signature: sig}
	// the other parent's unprotected bucket is anything at all, including content that could not be encoded
	// (the countersignature does not cover it): another benign map, a text kid, the pending countersignature
	// itself (embed, then sign), a nil abbreviated countersignature
	ub := UnprotectedHeader(mkBenignMap("ub", 1, false))
	pending := NewCountersignature()
	switch vChoose("ub.kind", 4) {
	case 1:
		ub = UnprotectedHeader{HeaderLabelKeyID: "text kid"}
	case 2:
		ub = UnprotectedHeader{HeaderLabelCounterSignatureV2: pending}
	case 3:
		ub = UnprotectedHeader{HeaderLabelCounterSignature0: nil}
	}
	b := &Sign1Message{Headers: Headers{Protected: prot, Unprotected: ub}, Payload: payload, Signature: sig}
	ext := mkExternal("ext")
	spA := &spySigner{alg: AlgorithmES256, sig: []byte{1}}
	spB := &spySigner{alg: AlgorithmES256, sig: []byte{1}}
	abbreviated := vChoose("abbreviated", 2) == 1
	var ea, eb error
	if abbreviated {
		_, ea = Countersign0(nil, spA, a, ext)
		_, eb = Countersign0(nil, spB, b, ext)
	} else {
		ea = NewCountersignature().Sign(nil, spA, a, ext)
		eb = pending.Sign(nil, spB, b, ext)
	}
	vAssert("independence: the outcome does not depend on the parent's unprotected headers", (ea == nil) == (eb == nil))
	vAssume(ea == nil && eb == nil)
	vAssert("independence: parents differing only in unprotected headers give the same ToBeSigned", vRopeEq(spA.content, spB.content))
	// full vs abbreviated over the same parent are different byte strings (context differs)
	spF := &spySigner{alg: AlgorithmES256, sig: []byte{1}}
	sp0 := &spySigner{alg: AlgorithmES256, sig: []byte{1}}
	cf := &Countersignature{Headers: Headers{Protected: ProtectedHeader{}, Unprotected: UnprotectedHeader{}}}
	vAssume(cf.Sign(nil, spF, a, nil) == nil)
	_, e0 := Countersign0(nil, sp0, a, nil)
	vAssume(e0 == nil)
	vAssert("independence: full and abbreviated forms sign different bytes", !vRopeEq(spF.content, sp0.content))
	vReach("end")
}


// two countersigners at work side by side, each in front of a signer that makes it wait: what each signer reads
// is the Countersign_structure of its own parent
func H_C10_concurrent() {
	mk := func(name string, lo, hi int) *Sign1Message {
		return &Sign1Message{Headers: Headers{Protected: ProtectedHeader{}, Unprotected: UnprotectedHeader{}},
			Payload: vBlobN(name+".payload", lo, hi), Signature: vBlobN(name+".sig", 1, 50)}
	}
	p1, p2 := mk("p1", 1, 40), mk("p2", 41, 80)
	ext := mkExternal("ext")
	sp1 := &lateSpySigner{alg: AlgorithmES256, sig: vBlobN("cs1.sig", 1, 60)}
	sp2 := &lateSpySigner{alg: AlgorithmES256, sig: vBlobN("cs2.sig", 1, 60)}
	abbreviated := vChoose("abbreviated", 2) == 1
	cs1 := &Countersignature{Headers: Headers{Protected: ProtectedHeader{}, Unprotected: UnprotectedHeader{}}}
	cs2 := &Countersignature{Headers: Headers{Protected: ProtectedHeader{}, Unprotected: UnprotectedHeader{}}}
	var e1, e2 error
	vInterleaved(
		func() {
			if abbreviated {
				_, e1 = Countersign0(nil, sp1, p1, ext)
			} else {
				e1 = cs1.Sign(nil, sp1, p1, ext)
			}
		},
		func() {
			if abbreviated {
				_, e2 = Countersign0(nil, sp2, p2, ext)
			} else {
				e2 = cs2.Sign(nil, sp2, p2, ext)
			}
		})
	vAssert("concurrent: both parents can be countersigned", e1 == nil && e2 == nil)
	if e1 != nil || e2 != nil {
		return
	}
	ctx := "CounterSignatureV2"
	sp1Prot, sp2Prot := []byte{}, []byte{}
	if abbreviated {
		ctx = "CounterSignature0V2"
	} else {
		sp1Prot, sp2Prot = protContentOf(cs1.Headers.Protected), protContentOf(cs2.Headers.Protected)
	}
	refCountersignCheck("concurrent/1", sp1.content, ctx, protContentOf(p1.Headers.Protected), sp1Prot, ext, p1.Payload, p1.Signature, true)
	refCountersignCheck("concurrent/2", sp2.content, ctx, protContentOf(p2.Headers.Protected), sp2Prot, ext, p2.Payload, p2.Signature, true)
	vReach("end")
}
