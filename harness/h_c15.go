//go:build verif

package cose

func init() {
	vRegister("H_C15_decode", H_C15_decode)
	vRegister("H_C15_gates", H_C15_gates)
}

// tree accessors for COSE_Key maps
func tKeyGet(m *vNodeT, sign int, mag uint64) *vNodeT {
	for i := 0; i < nLen(m); i++ {
		k := nKey(m, i)
		if nMajor(k) == sign && nArg(k) == mag {
			return nVal(m, i)
		}
	}
	return nil
}

func tIntVal(n *vNodeT) (int64, bool) {
	if n == nil || nArg(n) > 1<<63-1 {
		return 0, false
	}
	switch nMajor(n) {
	case 0:
		return int64(nArg(n)), true
	case 1:
		return -1 - int64(nArg(n)), true
	}
	return 0, false
}

func tBstrLen(n *vNodeT) int {
	if n == nil || nMajor(n) != 2 {
		return -1
	}
	return len(nBytes(n))
}

// refCurveOK: RFC 9053 table 18/19 - curves per key type and their coordinate sizes, and the algorithm each fixes
func refCurveInfo(kty, crv int64) (valid bool, size int, alg int64) {
	switch kty {
	case 2: // EC2
		switch crv {
		case 1:
			return true, 32, -7
		case 2:
			return true, 48, -35
		case 3:
			return true, 66, -36
		case 4, 5, 6, 7:
			return false, 0, 0
		}
		return true, 0, 0 // unknown curve: accepted as opaque, no size rule
	case 1: // OKP
		switch crv {
		case 6:
			return true, 32, -8
		case 1, 2, 3:
			return false, 0, 0
		}
		return true, 32, 0
	}
	return true, 0, 0
}

// accepted keys satisfy the consistency rules and re-encode canonically

// c15UsedDest: the destination is fresh, or already holds a decoded EC2 private key with kid and an extra parameter
func c15UsedDest(k *Key) bool {
	if vChoose("dest.used", 2) == 0 {
		return false
	}
	prev := nnMap([]*vNodeT{
		nnInt(0, 1, -1), nnInt(0, 2, -1),
		nnInt(0, 2, -1), nnBstr(vBlobN("dest.kid", 1, 8), -1),
		nnInt(1, 0, -1), nnInt(0, 1, -1),
		nnInt(1, 1, -1), nnBstr(vBlobN("dest.x", 32, 32), -1),
		nnInt(1, 2, -1), nnBstr(vBlobN("dest.y", 32, 32), -1),
		nnInt(1, 3, -1), nnBstr(vBlobN("dest.d", 32, 32), -1),
		nnInt(1, 69, -1), nnInt(0, 7, -1),
		nnInt(0, 4, -1), nnArray([]*vNodeT{nnInt(0, 1, -1), nnInt(0, 2, -1)}, -1),
	}, -1)
	vAssume(k.UnmarshalCBOR(vSer(prev)) == nil)
	return true
}

func H_C15_decode() {
	fp := mkFaultPlan(vChoose("budget", 2))
	tree := mkConfKeyTree("k", fp)
	wire, trailing := c05Wire(tree, fp)
	var k Key
	used := c15UsedDest(&k)
	if err := k.UnmarshalCBOR(wire); err != nil {
		vReach("refused")
		return
	}
	if used {
		// what a destination held before does not show in the accepted key
		var fresh Key
		ferr := fresh.UnmarshalCBOR(wire)
		vAssert("key: accepted into a used destination => accepted into a fresh one", ferr == nil)
		if ferr == nil {
			bu, eu := k.MarshalCBOR()
			bf, ef := fresh.MarshalCBOR()
			vAssert("key: same key whatever the destination held before", (eu == nil) == (ef == nil) && (eu != nil || vRopeEq(bu, bf)))
		}
	}
	vAssert("key: nothing after the item", !trailing)
	vAssert("key: a map", nMajor(tree) == 5 && !nIsIndef(tree))
	if nMajor(tree) != 5 {
		return
	}
	// labels: unique ints within int64 or text
	for i := 0; i < nLen(tree); i++ {
		ki := nKey(tree, i)
		vAssert("key: labels are int / tstr", tIsInt64Label(ki) || nMajor(ki) == 3)
		for j := 0; j < i; j++ {
			kj := nKey(tree, j)
			if nMajor(ki) == nMajor(kj) && nMajor(ki) <= 1 {
				vAssert("key: labels unique", nArg(ki) != nArg(kj))
			}
		}
	}
	kty, ok := tIntVal(tKeyGet(tree, 0, 1))
	vAssert("key: kty present, integer, not reserved", ok && kty != 0)
	if !ok {
		return
	}
	if kty == 1 || kty == 2 {
		crv, cok := tIntVal(tKeyGet(tree, 1, 0))
		vAssert("key: EC2/OKP curve present, integer, not reserved", cok && crv != 0)
		if cok {
			valid, size, alg := refCurveInfo(kty, crv)
			vAssert("key: curve valid for the key type", valid)
			x, y, d := tBstrLen(tKeyGet(tree, 1, 1)), tBstrLen(tKeyGet(tree, 1, 2)), tBstrLen(tKeyGet(tree, 1, 3))
			if kty == 2 && size > 0 {
				vAssert("key: EC2 coordinates within the curve size", x <= size && y <= size && d <= size)
			}
			if kty == 1 {
				vAssert("key: OKP x is 32 bytes when present", x <= 0 || x == 32)
				vAssert("key: OKP d is 32 bytes when present", d <= 0 || d == 32)
			}
			if a, aok := tIntVal(tKeyGet(tree, 0, 3)); aok && a != 0 {
				vAssert("key: alg matches the algorithm fixed by the curve", alg != 0 && a == alg)
			}
		}
	}
	// canonical re-encoding is idempotent
	b1, e1 := k.MarshalCBOR()
	vLogErr("marshal", e1)
	vAssert("key: an accepted key re-encodes", e1 == nil)
	if e1 != nil {
		return
	}
	var k2 Key
	e2 := k2.UnmarshalCBOR(b1)
	vLogErr("re-decode", e2)
	vAssert("key: the re-encoded key decodes", e2 == nil)
	if e2 != nil {
		return
	}
	b2, e3 := k2.MarshalCBOR()
	vAssert("key: re-encodes again", e3 == nil)
	if e3 == nil {
		vAssert("key: canonical bytes are stable", vRopeEq(b1, b2))
	}
	vReach("accepted")
}

// key_ops / private material / key type gates of Signer() and Verifier()
func H_C15_gates() {
	fp := mkFaultPlan(0)
	keyTreeGenuine = true
	keyTreeNoVary = vTier() == 0 // quick: well-formed skeletons; the gates are about key_ops / private material / key type
	// key_ops of every shape, on top of the skeleton (which itself has no key_ops unless common==3)
	tree := mkConfKeyTree("k", fp)
	var opsNode *vNodeT
	var ops []int64
	opsKind := vChoose("ops.kind", 5)
	switch opsKind {
	case 1:
		opsNode = nnArray(nil, -1)
	case 2, 3, 4:
		n := opsKind - 1
		var kids []*vNodeT
		for i := 0; i < n; i++ {
			if vChoose("ops."+vItoa(i)+".text", 2) == 1 {
				which := vChoose("ops."+vItoa(i)+".name", 3)
				kids = append(kids, nnTstr([]string{"sign", "verify", "encrypt"}[which], -1))
				ops = append(ops, []int64{1, 2, 3}[which])
			} else {
				x := vUint64("ops." + vItoa(i) + ".v")
				vAssume(x <= 10)
				kids = append(kids, nnInt(0, x, -1))
				ops = append(ops, int64(x))
			}
		}
		opsNode = nnArray(kids, -1)
	}
	if opsNode != nil {
		vAssume(tKeyGet(tree, 0, 4) == nil)
		var pairs []*vNodeT
		for i := 0; i < nLen(tree); i++ {
			pairs = append(pairs, nKey(tree, i), nVal(tree, i))
		}
		pairs = append(pairs, nnInt(0, 4, -1), opsNode)
		tree = nnMap(pairs, -1)
	}
	var k Key
	c15UsedDest(&k)
	if k.UnmarshalCBOR(vSer(tree)) != nil {
		vReach("refused")
		return
	}
	has := func(op int64) bool {
		for _, o := range ops {
			if o == op {
				return true
			}
		}
		return false
	}
	kty, _ := tIntVal(tKeyGet(tree, 0, 1))
	crv, _ := tIntVal(tKeyGet(tree, 1, 0))
	_, _, curveAlg := refCurveInfo(kty, crv)
	x, y, d := tBstrLen(tKeyGet(tree, 1, 1)), tBstrLen(tKeyGet(tree, 1, 2)), tBstrLen(tKeyGet(tree, 1, 3))
	restricted := opsNode != nil
	vKnown("KF-C15-1", opsKind == 1)
	signer, serr := k.Signer()
	if serr == nil {
		vAssert("gate: a signer only with private material", d > 0)
		vAssert("gate: a signer only if key_ops (when present) include sign", !restricted || has(1))
		vAssert("gate: a signer only for supported EC2 / OKP keys", curveAlg != 0)
		vAssert("gate: the signer's algorithm is the one fixed by the key", int64(signer.Algorithm()) == curveAlg)
	}
	verifier, verr := k.Verifier()
	if verr == nil {
		vAssert("gate: a verifier only with the public point", x > 0 && (kty != 2 || y > 0))
		vAssert("gate: a verifier only if key_ops (when present) include verify", !restricted || has(2))
		vAssert("gate: a verifier only for supported EC2 / OKP keys", curveAlg != 0)
		vAssert("gate: the verifier's algorithm is the one fixed by the key", int64(verifier.Algorithm()) == curveAlg)
	}
	if kty == 4 {
		vAssert("gate: never a signer / verifier for a symmetric key", serr != nil && verr != nil)
	}
	vReach("end")
}
