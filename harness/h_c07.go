//go:build verif

package cose

import "crypto/ed25519"

func init() {
	vRegister("H_C07_sign1", H_C07_sign1)
	vRegister("H_C07_sign", H_C07_sign)
	vRegister("H_C07_countersignature", H_C07_countersignature)
}

// refSigStructure: the RFC 9052 / 9338 Sig_structure built by an independent
// encoder (the reference tree serialiser), deterministic encoding.
func refSigStructure(context string, prots [][]byte, external, payload []byte, other []*vNodeT) []byte {
	kids := []*vNodeT{nnTstr(context, -1)}
	for _, p := range prots {
		kids = append(kids, nnBstr(p, -1))
	}
	kids = append(kids, nnBstr(external, -1), nnBstr(payload, -1))
	if len(other) > 0 {
		kids = append(kids, nnArray(other, -1))
	}
	return vSer(nnArray(kids, -1))
}

// c07Dim / c07Pick: the quick tier varies one dimension of the message at a
// time around a base shape (one-hot); the thorough tier takes the full product.
var c07Dim = -1

func c07Start(dims int) {
	c07Dim = -1
	if vTier() == 0 {
		c07Dim = vChoose("vary", dims)
	}
}

func c07Pick(name string, n int, dim int) int {
	if c07Dim >= 0 && c07Dim != dim {
		return 0
	}
	return vChoose(name, n)
}

// refSigner: an independent implementation's key and its signature over bytes
type refSigner struct {
	kind int // 0 ES256 1 ES384 2 ES512 3 EdDSA 4 PS256
	alg  Algorithm
	ver  Verifier
	sign func(tbs []byte) []byte
}

func mkRefSigner(name string) *refSigner {
	rs := &refSigner{kind: c07Pick(name+".algkind", 5, 0)}
	switch rs.kind {
	case 0, 1, 2:
		rs.alg = []Algorithm{AlgorithmES256, AlgorithmES384, AlgorithmES512}[rs.kind]
		c := vCurveByIndex(rs.kind)
		key := vECKeyValid(name+".key", c)
		v, err := NewVerifier(rs.alg, &key.PublicKey)
		vAssume(err == nil)
		rs.ver = v
		n := refOrderSize(c)
		rs.sign = func(tbs []byte) []byte {
			r, s := vEcdsaSign(key, vHash(refHashOfAlg(int64(rs.alg)), tbs))
			return append(refFixed(r, n), refFixed(s, n)...)
		}
	case 3:
		rs.alg = AlgorithmEdDSA
		key := vEdKey(name + ".key")
		v, err := NewVerifier(rs.alg, key.Public())
		vAssume(err == nil)
		rs.ver = v
		rs.sign = func(tbs []byte) []byte { return vEdSign(key, tbs) }
	case 4:
		rs.alg = AlgorithmPS256
		key := vRSAKeyValid(name + ".key")
		v, err := NewVerifier(rs.alg, &key.PublicKey)
		vAssume(err == nil)
		rs.ver = v
		rs.sign = func(tbs []byte) []byte { return vRSAPSSSign(key, int(refHashOfAlg(-37)), vHash(refHashOfAlg(-37), tbs)) }
	}
	return rs
}

// algNode: the alg parameter as an encoder may write it
func c07AlgEntry(name string, a Algorithm) []*vNodeT {
	mag := uint64(-1 - int64(a))
	return []*vNodeT{nnInt(0, 1, vWidth(name+".algkw", 1)), nnInt(1, mag, vWidth(name+".algvw", mag))}
}

// c07Layer: protected {alg [, extra]} in any encoding + conforming unprotected of the chosen feature
func c07Layer(name string, a Algorithm, feature int) (*vNodeT, []byte, *vNodeT) {
	fp := mkFaultPlan(0)
	pairs := c07AlgEntry(name, a)
	switch c07Pick(name+".pextra", 4, 1) {
	case 3: // an application parameter whose value is (or contains) a tagged item: tags are allowed inside the protected bstr
		l := vUint64(name + ".tl")
		vAssume(vAnd(l > 300, l <= 1<<63-1))
		tn := vUint64(name + ".tag")
		vAssume(vAnd(tn > 5, tn != 55799))
		tv := nnTag(tn, nnTstr("x", -1), vWidth(name+".tagw", tn))
		var val *vNodeT = tv
		if vChoose(name+".tnest", 2) == 1 {
			val = nnArray([]*vNodeT{tv}, -1)
		}
		pairs = append(pairs, nnInt(0, l, vWidth(name+".tlw", l)), val)
	case 1:
		b := vBlob(name + ".kid")
		pairs = append(pairs, nnInt(0, 4, vWidth(name+".kidkw", 4)), nnBstr(b, vWidth(name+".kidw", uint64(len(b)))))
	case 2: // key order is the sender's choice: an unknown label before alg
		l := vUint64(name + ".ul")
		vAssume(vAnd(l > 300, l <= 1<<63-1))
		b := vBlob(name + ".uv")
		pairs = append([]*vNodeT{nnInt(0, l, vWidth(name+".ulw", l)), nnBstr(b, vWidth(name+".uvw", uint64(len(b))))}, pairs...)
	}
	content := vSer(nnMap(pairs, vWidth(name+".pmw", uint64(len(pairs)/2))))
	prot := nnBstr(content, vWidth(name+".pbw", uint64(len(content))))
	_, unprot := mkLayer(name+".u", feature, fp, 0)
	return prot, content, unprot
}

func c07Feature(name string) int {
	return 6 + c07Pick(name+".ufeature", 5, 2) // unprotected features 6..10
}

func c07External() []byte {
	switch c07Pick("ext.kind", 3, 3) {
	case 0:
		return nil
	case 1:
		return []byte{}
	}
	return vBlobN("ext", 1, 1<<31-1)
}

func H_C07_sign1() {
	c07Start(6)
	rs := mkRefSigner("peer")
	prot, protContent, unprot := c07Layer("m", rs.alg, c07Feature("m"))
	payload := vBlob("payload")
	ext := c07External()
	sig := rs.sign(refSigStructure("Signature1", [][]byte{protContent}, ext, payload, nil))
	detached := c07Pick("detached", 2, 4) == 1
	var pl *vNodeT
	if detached {
		pl = nnSimple(22, 0)
	} else {
		pl = nnBstr(payload, vWidth("plw", uint64(len(payload))))
	}
	body := nnArray([]*vNodeT{prot, unprot, pl, nnBstr(sig, vWidth("sigw", uint64(len(sig))))}, 0)
	var m Sign1Message
	var err error
	if c07Pick("tagged", 2, 5) == 0 {
		err = m.UnmarshalCBOR(vSer(nnTag(18, body, 0)))
	} else {
		err = (*UntaggedSign1Message)(&m).UnmarshalCBOR(vSer(body))
	}
	vLogErr("decode", err)
	vAssert("sign1: a conforming message is accepted in any valid encoding", err == nil)
	if err != nil {
		return
	}
	if detached {
		vAssert("sign1: detached payload decodes as nil", m.Payload == nil)
		m.Payload = payload
	}
	verr := m.Verify(ext, rs.ver)
	vLogErr("verify", verr)
	vAssert("sign1: a signature made by an independent implementation over the wire bytes verifies", verr == nil)
	vReach("end")
}

func H_C07_sign() {
	c07Start(5)
	rs0 := mkRefSigner("peer0")
	// body layer: protected h'' / h'a0' / {kid}, any encoding
	var bodyContent []byte
	switch c07Pick("m.pform", 3, 4) {
	case 1:
		bodyContent = vSer(nnMap(nil, vWidth("m.emw", 0)))
	case 2:
		kb := vBlob("m.kid")
		bodyContent = vSer(nnMap([]*vNodeT{nnInt(0, 4, vWidth("m.kkw", 4)), nnBstr(kb, vWidth("m.kw", uint64(len(kb))))}, vWidth("m.mw", 1)))
	default:
		bodyContent = []byte{}
	}
	bodyProt := nnBstr(bodyContent, vWidth("m.pbw", uint64(len(bodyContent))))
	_, bodyUnprot := mkLayer("m.u", 6, mkFaultPlan(0), 0)
	payload := vBlob("payload")
	ext := c07External()
	p0, c0, u0 := c07Layer("s0", rs0.alg, c07Feature("s0"))
	sig0 := rs0.sign(refSigStructure("Signature", [][]byte{bodyContent, c0}, ext, payload, nil))
	sigs := []*vNodeT{nnArray([]*vNodeT{p0, u0, nnBstr(sig0, vWidth("sig0w", uint64(len(sig0))))}, 0)}
	verifiers := []Verifier{rs0.ver}
	if c07Pick("two", 2, 4) == 1 {
		rs1 := &refSigner{}
		{
			// second signer: Ed25519 (mixed algorithms)
			rs1.alg = AlgorithmEdDSA
			key := vEdKey("peer1.key")
			v, err := NewVerifier(rs1.alg, key.Public())
			vAssume(err == nil)
			rs1.ver = v
			rs1.sign = func(tbs []byte) []byte { return vEdSign(key, tbs) }
		}
		p1, c1, u1 := c07Layer("s1", rs1.alg, 0)
		sig1 := rs1.sign(refSigStructure("Signature", [][]byte{bodyContent, c1}, ext, payload, nil))
		sigs = append(sigs, nnArray([]*vNodeT{p1, u1, nnBstr(sig1, vWidth("sig1w", uint64(len(sig1))))}, 0))
		verifiers = append(verifiers, rs1.ver)
	}
	body := nnArray([]*vNodeT{bodyProt, bodyUnprot, nnBstr(payload, vWidth("plw", uint64(len(payload)))), nnArray(sigs, vWidth("saw", uint64(len(sigs))))}, 0)
	var m SignMessage
	err := m.UnmarshalCBOR(vSer(nnTag(98, body, 1)))
	vLogErr("decode", err)
	vAssert("sign: a conforming COSE_Sign is accepted in any valid encoding", err == nil)
	if err != nil {
		return
	}
	verr := m.Verify(ext, verifiers...)
	vLogErr("verify", verr)
	vAssert("sign: signatures made by independent implementations over the wire bytes verify", verr == nil)
	vReach("end")
}

// a countersignature carried in an unprotected header, made by a peer over the parent's wire bytes
func H_C07_countersignature() {
	c07Start(5)
	rs := mkRefSigner("peer")
	// parent: COSE_Sign1 with a protected header in any encoding
	pprot, pcontent, _ := c07Layer("parent", AlgorithmES256, 0)
	payload := vBlob("payload")
	psig := vBlobN("parent.sig", 1, 200)
	ext := c07External()
	cprot, ccontent, cunprot := c07Layer("cs", rs.alg, 6+c07Pick("cs.ufeature", 2, 2))
	// RFC 9338: CounterSignatureV2 with the parent's signature in other_fields
	tbs := refSigStructure("CounterSignatureV2", [][]byte{pcontent, ccontent}, ext, payload, []*vNodeT{nnBstr(psig, -1)})
	csig := rs.sign(tbs)
	cs := nnArray([]*vNodeT{cprot, cunprot, nnBstr(csig, vWidth("csigw", uint64(len(csig))))}, 0)
	var csVal *vNodeT = cs
	// single object, or a list of 1..3 (thorough: ..5) countersignatures with the peer's one at a symbolic position
	maxList := 3
	if vTier() == 1 {
		maxList = 5
	}
	listLen := c07Pick("list", maxList+1, 4)
	list := listLen > 0
	pos := 0
	if list {
		pos = vChoose("list.pos", listLen)
		var elems []*vNodeT
		for i := 0; i < listLen; i++ {
			if i == pos {
				elems = append(elems, cs)
			} else {
				ob := vBlobN("other.sig"+vItoa(i), 1, 64)
				elems = append(elems, nnArray([]*vNodeT{nnBstr([]byte{}, -1), nnMap(nil, -1), nnBstr(ob, -1)}, 0))
			}
		}
		csVal = nnArray(elems, vWidth("listw", uint64(listLen)))
	}
	unprot := nnMap([]*vNodeT{nnInt(0, 11, vWidth("cskw", 11)), csVal}, vWidth("umw", 1))
	body := nnArray([]*vNodeT{pprot, unprot, nnBstr(payload, vWidth("plw", uint64(len(payload)))), nnBstr(psig, vWidth("psigw", uint64(len(psig))))}, 0)
	var m Sign1Message
	err := m.UnmarshalCBOR(vSer(nnTag(18, body, 0)))
	vLogErr("decode", err)
	vAssert("countersignature: a conforming message with a countersignature is accepted", err == nil)
	if err != nil {
		return
	}
	v := m.Headers.Unprotected[HeaderLabelCounterSignatureV2]
	var got *Countersignature
	if list {
		l, ok := v.([]*Countersignature)
		vAssert("countersignature: a list decodes to typed objects", ok && len(l) == listLen)
		if !ok || len(l) != listLen {
			return
		}
		got = l[pos]
	} else {
		c, ok := v.(*Countersignature)
		vAssert("countersignature: decodes to a typed object", ok)
		if !ok {
			return
		}
		got = c
	}
	verr := got.Verify(rs.ver, &m, ext)
	vLogErr("verify", verr)
	vAssert("countersignature: a peer's countersignature over the parent's wire bytes verifies", verr == nil)
	vReach("end")
	var _ ed25519.PublicKey
}
