//go:build verif

package cose

func init() {
	vRegister("H_C19_sign1", H_C19_sign1)
	vRegister("H_C19_sign", H_C19_sign)
	vRegister("H_C19_signature", H_C19_signature)
	vRegister("H_C19_headers", H_C19_headers)
	vRegister("H_C19_output_fresh", H_C19_output_fresh)
}

// quick tier: the destination always holds a previously decoded message of one
// shape; thorough: used / fresh destination and three previous shapes
func c19Used() bool {
	if vTier() == 0 {
		return true
	}
	return vChoose("used", 2) == 1
}

func c19PrevFeature(name string) int {
	if vTier() == 0 {
		return 2
	}
	return vChoose(name+".feature", 3)
}

// previous contents of a destination: a message decoded earlier from other bytes
func c19PrevSign1Wire(name string) []byte {
	fp := mkFaultPlan(0)
	return vSer(nnTag(18, mkSign1Body(name, c19PrevFeature(name), fp), 0))
}

// tagged / untagged COSE_Sign1 into a used destination: atomic on failure, history-free on success, no aliasing
func H_C19_sign1() {
	prevWire := c19PrevSign1Wire("prev")
	var dst, snap Sign1Message
	used := c19Used()
	if used {
		vAssume(dst.UnmarshalCBOR(prevWire) == nil)
		vAssume(snap.UnmarshalCBOR(prevWire) == nil)
	}
	fp := mkFaultPlan(c05Budget())
	body := mkSign1Body("m", c06Feature(), fp)
	tagged := vChoose("tagged", 2) == 0
	top := body
	if tagged {
		top = nnTag(18, body, 0)
	}
	buf, _ := c05Wire(top, fp)
	ref, _ := c05Wire(top, mkFaultPlan(0))
	vFreeze()
	var err error
	if tagged {
		err = dst.UnmarshalCBOR(buf)
	} else {
		err = (*UntaggedSign1Message)(&dst).UnmarshalCBOR(buf)
	}
	writes := vWrites()
	vUnfreeze()
	if err != nil {
		vAssert("sign1: a failed decode stores nothing into the destination or the input", writes == 0)
		vAssert("sign1: a failed decode leaves the destination as it was", vDeepEqual(dst, snap))
		vReach("refused")
		return
	}
	var fresh Sign1Message
	if tagged {
		vAssume(fresh.UnmarshalCBOR(ref) == nil)
	} else {
		vAssume((*UntaggedSign1Message)(&fresh).UnmarshalCBOR(ref) == nil)
	}
	vAssert("sign1: decoding into a used variable equals decoding into a fresh one", vDeepEqual(dst, fresh))
	vAssert("sign1: the decoded value shares no memory with the input buffer", !vAliases(&dst, buf))
	// a decoded value is the caller's own: editing another message decoded from the same bytes leaves it alone
	snapD := vSnapshot(&dst)
	vFreeze()
	if fresh.Headers.Protected != nil {
		fresh.Headers.Protected.SetAlgorithm(Algorithm(vInt64("edit.alg")))
	}
	if fresh.Headers.Unprotected != nil {
		fresh.Headers.Unprotected[int64(4)] = []byte{7}
	}
	vScribble(fresh.Headers.RawProtected)
	vScribble(fresh.Headers.RawUnprotected)
	vScribble(fresh.Payload)
	vScribble(fresh.Signature)
	vUnfreeze()
	vAssert("sign1: two decoded values share no memory (editing one leaves the other as it was)", !vChanged(&dst, snapD))
	vReach("accepted")
}

func H_C19_sign() {
	fpPrev := mkFaultPlan(0)
	pp, pu := mkLayer("prev", c19PrevFeature("prev"), fpPrev, 0)
	prevWire := vSer(nnTag(98, nnArray([]*vNodeT{pp, pu, mkConfPayload("prev.pl", fpPrev), nnArray([]*vNodeT{mkCountersig("prev.s", 2, fpPrev, 1)}, 0)}, 0), 1))
	var dst, snap SignMessage
	if c19Used() {
		vAssume(dst.UnmarshalCBOR(prevWire) == nil)
		vAssume(snap.UnmarshalCBOR(prevWire) == nil)
	}
	fp := mkFaultPlan(c05Budget())
	n := 1 + vChoose("nsig", 2)
	p, u := mkLayer("m", 0, fp, 0)
	pl := mkConfPayload("m.payload", fp)
	var sigs []*vNodeT
	for i := 0; i < n; i++ {
		f := 0
		if i == 0 {
			f = vChoose("sfeature", 3)
		}
		sigs = append(sigs, mkCountersig("s"+vItoa(i), f, fp, 1))
	}
	top := nnTag(98, nnArray([]*vNodeT{p, u, pl, nnArray(sigs, vWidth("sw", uint64(n)))}, 0), 1)
	buf, _ := c05Wire(top, fp)
	ref := vSer(top)
	vFreeze()
	err := dst.UnmarshalCBOR(buf)
	writes := vWrites()
	vUnfreeze()
	if err != nil {
		vAssert("sign: a failed decode stores nothing into the destination or the input", writes == 0)
		vAssert("sign: a failed decode leaves the destination as it was", vDeepEqual(dst, snap))
		vReach("refused")
		return
	}
	var fresh SignMessage
	vAssume(fresh.UnmarshalCBOR(ref) == nil)
	vAssert("sign: decoding into a used variable equals decoding into a fresh one", vDeepEqual(dst, fresh))
	vAssert("sign: the decoded value shares no memory with the input buffer", !vAliases(&dst, buf))
	vReach("accepted")
}

func H_C19_signature() {
	prevWire := vSer(mkCountersig("prev", c19PrevFeature("prev"), mkFaultPlan(0), 0))
	var dst, snap Signature
	if c19Used() {
		vAssume(dst.UnmarshalCBOR(prevWire) == nil)
		vAssume(snap.UnmarshalCBOR(prevWire) == nil)
	}
	fp := mkFaultPlan(c05Budget())
	top := mkCountersig("s", c06Feature(), fp, 0)
	buf, _ := c05Wire(top, fp)
	ref := vSer(top)
	asCS := vChoose("type", 2) == 1
	vFreeze()
	var err error
	if asCS {
		err = (*Countersignature)(&dst).UnmarshalCBOR(buf)
	} else {
		err = dst.UnmarshalCBOR(buf)
	}
	writes := vWrites()
	vUnfreeze()
	if err != nil {
		vAssert("signature: a failed decode stores nothing into the destination or the input", writes == 0)
		vAssert("signature: a failed decode leaves the destination as it was", vDeepEqual(dst, snap))
		vReach("refused")
		return
	}
	var fresh Signature
	vAssume(fresh.UnmarshalCBOR(ref) == nil)
	vAssert("signature: decoding into a used variable equals decoding into a fresh one", vDeepEqual(dst, fresh))
	vAssert("signature: the decoded value shares no memory with the input buffer", !vAliases(&dst, buf))
	vReach("accepted")
}

func H_C19_headers() {
	fpPrev := mkFaultPlan(0)
	pp, pu := mkLayer("prev", 3+c19PrevFeature("prev"), fpPrev, 0)
	fp := mkFaultPlan(c05Budget())
	p, u := mkLayer("h", vChoose("feature", nLayerFeatures), fp, 0)
	used := c19Used()
	if vChoose("bucket", 2) == 0 {
		var dst, snap ProtectedHeader
		if used {
			vAssume(dst.UnmarshalCBOR(vSer(pp)) == nil)
			vAssume(snap.UnmarshalCBOR(vSer(pp)) == nil)
		}
		buf, _ := c05Wire(p, fp)
		vFreeze()
		err := dst.UnmarshalCBOR(buf)
		writes := vWrites()
		vUnfreeze()
		if err != nil {
			vAssert("protected: a failed decode stores nothing", writes == 0)
			vAssert("protected: a failed decode leaves the destination as it was", vDeepEqual(dst, snap))
			vReach("refused")
			return
		}
		var fresh ProtectedHeader
		vAssume(fresh.UnmarshalCBOR(vSer(p)) == nil)
		vAssert("protected: history-free", vDeepEqual(dst, fresh))
		vAssert("protected: no aliasing of the input", !vAliases(&dst, buf))
	} else {
		var dst, snap UnprotectedHeader
		if used {
			vAssume(dst.UnmarshalCBOR(vSer(pu)) == nil)
			vAssume(snap.UnmarshalCBOR(vSer(pu)) == nil)
		}
		buf, _ := c05Wire(u, fp)
		vFreeze()
		err := dst.UnmarshalCBOR(buf)
		writes := vWrites()
		vUnfreeze()
		if err != nil {
			vAssert("unprotected: a failed decode stores nothing", writes == 0)
			vAssert("unprotected: a failed decode leaves the destination as it was", vDeepEqual(dst, snap))
			vReach("refused")
			return
		}
		var fresh UnprotectedHeader
		vAssume(fresh.UnmarshalCBOR(vSer(u)) == nil)
		vAssert("unprotected: history-free", vDeepEqual(dst, fresh))
		vAssert("unprotected: no aliasing of the input", !vAliases(&dst, buf))
	}
	vReach("accepted")
}

// an encoded output is fresh memory: writing to it later cannot change the message
func H_C19_output_fresh() {
	fp := mkFaultPlan(0)
	wire := vSer(nnTag(18, mkSign1Body("m", vChoose("feature", nLayerFeatures), fp), 0))
	var m Sign1Message
	vAssume(m.UnmarshalCBOR(wire) == nil)
	out, err := m.MarshalCBOR()
	vAssert("output: a decoded message re-encodes", err == nil)
	if err == nil {
		vAssert("output: the encoding shares no memory with the message", !vAliases(&m, out))
	}
	vReach("end")
}
