//go:build verif

package cose

import "crypto/ed25519"

func init() {
	vRegister("H_C01_sign1", H_C01_sign1)
	vRegister("H_C01_sign", H_C01_sign)
	vRegister("H_C01_countersign", H_C01_countersign)
	vRegister("H_C01_hashenv", H_C01_hashenv)
	vRegister("H_C01_countersign_attached", H_C01_countersign_attached)
	vRegister("H_C01_from_cose_key", H_C01_from_cose_key)
	vRegister("H_C01_concurrent", H_C01_concurrent)
}

// keyPair: a built-in signer and the matching verifier for one of the 7 algorithms
type c01Pair struct {
	alg      Algorithm
	signer   Signer
	verifier Verifier
}

func mkC01Pair(name string, dim int) c01Pair {
	var p c01Pair
	var err error
	kind := c07Pick(name+".algkind", 7, dim)
	switch kind {
	case 0, 1, 2:
		p.alg = []Algorithm{AlgorithmES256, AlgorithmES384, AlgorithmES512}[kind]
		key := vECKeyValid(name+".key", vCurveByIndex(kind))
		vAssume(vOnCurve(&key.PublicKey))
		if c07Pick(name+".opaque", 2, dim) == 1 { // the key behind a foreign crypto.Signer (HSM / KMS style)
			p.signer, err = NewSigner(p.alg, &wrappedKey{inner: key})
		} else {
			p.signer, err = NewSigner(p.alg, key)
		}
		vAssume(err == nil)
		p.verifier, err = NewVerifier(p.alg, &key.PublicKey)
		vAssume(err == nil)
	case 3:
		p.alg = AlgorithmEdDSA
		key := vEdKey(name + ".key")
		p.signer, err = NewSigner(p.alg, key)
		vAssume(err == nil)
		p.verifier, err = NewVerifier(p.alg, key.Public().(ed25519.PublicKey))
		vAssume(err == nil)
	default:
		p.alg = []Algorithm{AlgorithmPS256, AlgorithmPS384, AlgorithmPS512}[kind-4]
		key := vRSAKeyValid(name + ".key")
		if c07Pick(name+".opaque", 2, dim) == 1 {
			p.signer, err = NewSigner(p.alg, &wrappedKey{inner: key})
		} else {
			p.signer, err = NewSigner(p.alg, key)
		}
		vAssume(err == nil)
		p.verifier, err = NewVerifier(p.alg, &key.PublicKey)
		vAssume(err == nil)
	}
	return p
}

func c01Headers(name string, dim int) Headers {
	h := Headers{Protected: ProtectedHeader{}, Unprotected: UnprotectedHeader{}}
	switch c07Pick(name+".hdr", 4, dim) {
	case 1:
		h.Protected = ProtectedHeader(mkBenignMap(name+".p", 2, false))
	case 2:
		h.Unprotected = UnprotectedHeader(mkBenignMap(name+".u", 2, false))
	case 3:
		h.Protected = nil
		h.Unprotected = nil
	}
	return h
}

// COSE_Sign1, tagged and untagged, in memory and over the wire, attached and detached
func H_C01_sign1() {
	c07Start(6)
	kp := mkC01Pair("k", 0)
	msg := &Sign1Message{Headers: c01Headers("m", 1), Payload: vBlob("payload")}
	ext := c07External() // dimension 3
	if err := msg.Sign(vRand(), ext, kp.signer); err != nil {
		vReach("sign failed")
		return
	}
	vAssert("sign1: what was signed verifies in memory", msg.Verify(ext, kp.verifier) == nil)
	tagged := c07Pick("tagged", 2, 5) == 0
	detached := c07Pick("detached", 2, 4) == 1
	payload := msg.Payload
	if detached {
		msg.Payload = nil
	}
	var wire []byte
	var err error
	if tagged {
		wire, err = msg.MarshalCBOR()
	} else {
		wire, err = (*UntaggedSign1Message)(msg).MarshalCBOR()
	}
	vAssert("sign1: a signed message serialises", err == nil)
	if err != nil {
		return
	}
	var back Sign1Message
	if tagged {
		err = back.UnmarshalCBOR(wire)
	} else {
		err = (*UntaggedSign1Message)(&back).UnmarshalCBOR(wire)
	}
	vLogErr("decode", err)
	vAssert("sign1: the serialised message parses back", err == nil)
	if err != nil {
		return
	}
	if detached {
		vAssert("sign1: a detached payload arrives as nil", back.Payload == nil)
		back.Payload = payload
	}
	verr := back.Verify(ext, kp.verifier)
	vLogErr("verify", verr)
	vAssert("sign1: verifies after the wire round trip", verr == nil)
	vReach("end")
}

// COSE_Sign with one or two signers of (possibly) different algorithms
func H_C01_sign() {
	c07Start(6)
	k0 := mkC01Pair("k0", 0)
	msg := &SignMessage{Headers: c01Headers("m", 1), Payload: vBlob("payload"), Signatures: []*Signature{{Headers: c01Headers("s0", 2)}}}
	signers := []Signer{k0.signer}
	verifiers := []Verifier{k0.verifier}
	if c07Pick("two", 2, 4) == 1 {
		k1 := mkC01Pair("k1", 5)
		msg.Signatures = append(msg.Signatures, NewSignature())
		signers = append(signers, k1.signer)
		verifiers = append(verifiers, k1.verifier)
	}
	ext := c07External()
	if err := msg.Sign(vRand(), ext, signers...); err != nil {
		vReach("sign failed")
		return
	}
	vAssert("sign: verifies in memory", msg.Verify(ext, verifiers...) == nil)
	wire, err := msg.MarshalCBOR()
	vAssert("sign: serialises", err == nil)
	if err != nil {
		return
	}
	var back SignMessage
	derr := back.UnmarshalCBOR(wire)
	vLogErr("decode", derr)
	vAssert("sign: parses back", derr == nil)
	if derr != nil {
		return
	}
	verr := back.Verify(ext, verifiers...)
	vLogErr("verify", verr)
	vAssert("sign: verifies after the wire round trip", verr == nil)
	vReach("end")
}

// full and abbreviated countersignatures over every kind of parent, constructed and decoded
func H_C01_countersign() {
	c07Start(6)
	kp := mkC01Pair("k", 0)
	c10LeanParent = vTier() == 0
	pi := mkC10Parent("parent")
	ext := c07External()
	parent := pi.parent
	// decoded parents: send the parent over the wire first (Sign1 / Signature parents)
	if c07Pick("decodedparent", 2, 4) == 1 {
		switch p := parent.(type) {
		case *Sign1Message:
			b, err := p.MarshalCBOR()
			vAssume(err == nil)
			var d Sign1Message
			vAssume(d.UnmarshalCBOR(b) == nil)
			parent = &d
		case *Signature:
			b, err := p.MarshalCBOR()
			vAssume(err == nil)
			var d Signature
			vAssume(d.UnmarshalCBOR(b) == nil)
			parent = &d
		}
	}
	if c07Pick("abbreviated", 2, 5) == 1 {
		sig, err := Countersign0(vRand(), kp.signer, parent, ext)
		if err != nil {
			vReach("sign failed")
			return
		}
		vAssert("countersign0: verifies against the same parent", VerifyCountersign0(kp.verifier, parent, ext, sig) == nil)
		vReach("abbreviated")
		return
	}
	cs := &Countersignature{Headers: c01Headers("cs", 1)}
	if err := cs.Sign(vRand(), kp.signer, parent, ext); err != nil {
		vReach("sign failed")
		return
	}
	vAssert("countersign: verifies in memory", cs.Verify(kp.verifier, parent, ext) == nil)
	wire, err := cs.MarshalCBOR()
	vAssert("countersign: serialises", err == nil)
	if err != nil {
		return
	}
	var back Countersignature
	derr := back.UnmarshalCBOR(wire)
	vAssert("countersign: parses back", derr == nil)
	if derr != nil {
		return
	}
	vAssert("countersign: verifies after the wire round trip", back.Verify(kp.verifier, parent, ext) == nil)
	vReach("end")
}

// countersignatures carried in the parent's unprotected header (single object, list of 1..4)
// survive the parent's wire round trip and still verify against the decoded parent
func H_C01_countersign_attached() {
	c07Start(1)
	kp := mkC01Pair("k", 0)
	ext := c07External()
	inSigner := vChoose("where", 2) == 1 // on a COSE_Sign1, or on a signer inside a COSE_Sign (one level deeper)
	msg := &Sign1Message{
		Headers:   Headers{Protected: ProtectedHeader{HeaderLabelAlgorithm: AlgorithmES256}, Unprotected: UnprotectedHeader{}},
		Payload:   vBlob("payload"),
		Signature: vBlobN("psig", 1, 64),
	}
	signer := &Signature{Headers: Headers{Protected: ProtectedHeader{HeaderLabelAlgorithm: AlgorithmES256}, Unprotected: UnprotectedHeader{}}, Signature: vBlobN("ssig", 1, 64)}
	smsg := &SignMessage{Headers: Headers{Protected: ProtectedHeader{}, Unprotected: UnprotectedHeader{}}, Payload: vBlob("spayload"), Signatures: []*Signature{signer}}
	var parent any = msg
	target := msg.Headers.Unprotected
	if inSigner {
		parent, target = signer, signer.Headers.Unprotected
	}
	n := 1 + vChoose("n", 4)
	var list []*Countersignature
	for i := 0; i < n; i++ {
		cs := &Countersignature{Headers: Headers{Protected: ProtectedHeader{}, Unprotected: UnprotectedHeader{}}}
		if c07Pick("csnested", 2, 0) == 1 { // a nested value in the countersignature's own unprotected bucket
			cs.Headers.Unprotected[int64(1000)] = map[any]any{int64(1): []any{vInt64("deep")}}
		}
		if err := cs.Sign(vRand(), kp.signer, parent, ext); err != nil {
			vReach("sign failed")
			return
		}
		list = append(list, cs)
	}
	label := []int64{HeaderLabelCounterSignatureV2, HeaderLabelCounterSignature}[vChoose("label", 2)]
	single := n == 1 && vChoose("single", 2) == 1
	if single {
		target[label] = list[0]
	} else {
		target[label] = list
	}
	var got any
	var backParent any
	if inSigner {
		wire, err := smsg.MarshalCBOR()
		vAssert("attached: the countersigned message serialises", err == nil)
		if err != nil {
			return
		}
		var back SignMessage
		derr := back.UnmarshalCBOR(wire)
		vLogErr("decode", derr)
		vAssert("attached: the library decodes the countersigned message it produced", derr == nil)
		if derr != nil {
			return
		}
		got, backParent = back.Signatures[0].Headers.Unprotected[label], back.Signatures[0]
	} else {
		wire, err := msg.MarshalCBOR()
		vAssert("attached: the countersigned message serialises", err == nil)
		if err != nil {
			return
		}
		var back Sign1Message
		derr := back.UnmarshalCBOR(wire)
		vLogErr("decode", derr)
		vAssert("attached: the library decodes the countersigned message it produced", derr == nil)
		if derr != nil {
			return
		}
		got, backParent = back.Headers.Unprotected[label], &back
	}
	var gl []*Countersignature
	switch v := got.(type) {
	case *Countersignature:
		gl = []*Countersignature{v}
	case []*Countersignature:
		gl = v
	}
	vAssert("attached: every countersignature comes back", len(gl) == n)
	for _, cs := range gl {
		vAssert("attached: countersignature verifies against the decoded parent", cs.Verify(kp.verifier, backParent, ext) == nil)
	}
	vReach("end")
}

func H_C01_hashenv() {
	c07Start(3)
	kp := mkC01Pair("k", 0)
	ha := []Algorithm{AlgorithmSHA256, AlgorithmSHA384, AlgorithmSHA512}[c07Pick("hashalg", 3, 1)]
	hv := vBlobN("hash", 0, 64)
	vAssume(len(hv) == refDigestSize(int64(ha)))
	pay := HashEnvelopePayload{HashAlgorithm: ha, HashValue: hv}
	if c07Pick("ct", 2, 2) == 1 {
		pay.PreimageContentType = "application/json"
		pay.Location = "https://example.com/x"
	}
	out, err := SignHashEnvelope(vRand(), kp.signer, c01Headers("m", 2), pay)
	if err != nil {
		vReach("sign failed")
		return
	}
	m, verr := VerifyHashEnvelope(kp.verifier, out)
	vLogErr("verify", verr)
	vAssert("hashenv: what SignHashEnvelope produced verifies", verr == nil)
	if verr == nil {
		vAssert("hashenv: payload is the hash value", vRopeEq(m.Payload, hv))
	}
	vReach("end")
}

// keys built from COSE_Key
func H_C01_from_cose_key() {
	c07Start(2)
	var priv, pub *Key
	var err error
	if c07Pick("family", 2, 0) == 0 {
		sk := vECKeyValid("key", vCurveByIndex(c07Pick("curve", 3, 1)))
		vAssume(vOnCurve(&sk.PublicKey))
		vAssume(sk.X.Sign() != 0)
		vAssume(sk.Y.Sign() != 0)
		priv, err = NewKeyFromPrivate(sk)
		vAssume(err == nil)
		pub, err = NewKeyFromPublic(&sk.PublicKey)
		vAssume(err == nil)
	} else {
		sk := vEdKey("key")
		priv, err = NewKeyFromPrivate(sk)
		vAssume(err == nil)
		pub, err = NewKeyFromPublic(sk.Public())
		vAssume(err == nil)
	}
	signer, e1 := priv.Signer()
	verifier, e2 := pub.Verifier()
	vAssert("cosekey: signer and verifier from COSE_Keys", e1 == nil && e2 == nil)
	if e1 != nil || e2 != nil {
		return
	}
	out, err := Sign1(vRand(), signer, Headers{}, vBlob("payload"), nil)
	if err != nil {
		vReach("sign failed")
		return
	}
	var back Sign1Message
	vAssert("cosekey: parses", back.UnmarshalCBOR(out) == nil)
	vAssert("cosekey: verifies", back.Verify(nil, verifier) == nil)
	vReach("end")
}


// two independent messages are signed and verified by two goroutines through a signer / verifier that makes its
// caller wait: each message verifies as if it had been processed alone
func H_C01_concurrent() {
	key := vECKeyValid("k.key", vCurveByIndex(0))
	vAssume(vOnCurve(&key.PublicKey))
	sg, err := NewSigner(AlgorithmES256, key)
	vAssume(err == nil)
	vf, err := NewVerifier(AlgorithmES256, &key.PublicKey)
	vAssume(err == nil)
	signer, verifier := yieldingSigner{sg}, yieldingVerifier{vf}
	hdr := func() Headers { return Headers{Protected: ProtectedHeader{}, Unprotected: UnprotectedHeader{}} }
	m1 := &Sign1Message{Headers: hdr(), Payload: vBlobN("p1", 1, 40)}
	p2 := vBlobN("p2", 41, 80)
	m2 := &Sign1Message{Headers: hdr(), Payload: p2}
	s2 := &SignMessage{Headers: hdr(), Payload: p2, Signatures: []*Signature{{Headers: hdr()}}}
	kind := vChoose("second", 2)
	var e1, e2 error
	vInterleaved(
		func() { e1 = m1.Sign(vRand(), nil, signer) },
		func() {
			if kind == 0 {
				e2 = m2.Sign(vRand(), nil, signer)
			} else {
				e2 = s2.Sign(vRand(), nil, signer)
			}
		})
	if e1 != nil || e2 != nil {
		vReach("sign failed")
		return
	}
	var r1, r2 error
	vInterleaved(
		func() { r1 = m1.Verify(nil, verifier) },
		func() {
			if kind == 0 {
				r2 = m2.Verify(nil, verifier)
			} else {
				r2 = s2.Verify(nil, verifier)
			}
		})
	vAssert("concurrent: messages signed and verified side by side verify", r1 == nil && r2 == nil)
	// and a countersignature made next to an unrelated signing operation
	cs := &Countersignature{Headers: hdr()}
	m3 := &Sign1Message{Headers: hdr(), Payload: vBlobN("p3", 81, 120)}
	var e3, e4 error
	vInterleaved(
		func() { e3 = cs.Sign(vRand(), signer, m1, nil) },
		func() { e4 = m3.Sign(vRand(), nil, signer) })
	if e3 == nil && e4 == nil {
		vAssert("concurrent: a countersignature made next to another signature verifies", cs.Verify(vf, m1, nil) == nil && m3.Verify(nil, vf) == nil)
	}
	vReach("end")
}
