//go:build verif

package cose

import (
	"crypto"
	"crypto/elliptic"
	_ "crypto/sha256"
	_ "crypto/sha512"
	"errors"
	"io"
)

// refOrderSize: RFC 9053 section 2.1 - byte length of the curve order (written
// independently of the library: a table by curve name).
func refOrderSize(c elliptic.Curve) int {
	switch c.Params().Name {
	case "P-256":
		return 32
	case "P-384":
		return 48
	case "P-521":
		return 66
	case "P-224":
		return 28
	}
	return -1
}

// refHashOfAlg: RFC 9053 tables 1 and RFC 8230 table 2.
func refHashOfAlg(a int64) int {
	switch a {
	case -7, -37, -16:
		return int(crypto.SHA256)
	case -35, -38, -43:
		return int(crypto.SHA384)
	case -36, -39, -44:
		return int(crypto.SHA512)
	}
	return 0
}

func computeHashRef(h int, data []byte) ([]byte, error) {
	hh := crypto.Hash(h)
	if !hh.Available() {
		return nil, errors.New("hash unavailable")
	}
	w := hh.New()
	w.Write(data)
	return w.Sum(nil), nil
}

// ---- spies ---------------------------------------------------------------------------------------

var errSpySign = errors.New("spy signer: injected failure")
var errSpyVerify = errors.New("spy verifier: injected failure")

// spySigner records what it is asked to sign and returns what the harness chose.
type spySigner struct {
	alg     Algorithm
	sig     []byte
	fail    bool
	calls   int
	content []byte
}

func (s *spySigner) Algorithm() Algorithm { return s.alg }
func (s *spySigner) Sign(_ io.Reader, content []byte) ([]byte, error) {
	s.calls++
	s.content = content
	if s.fail {
		// worst case: a failing signer hands back garbage together with its error
		return s.sig, errSpySign
	}
	return s.sig, nil
}

type spyVerifier struct {
	alg     Algorithm
	fail    bool
	failErr error // what a failing verifier returns (default errSpyVerify; built-in verifiers return ErrVerification)
	calls   int
	content []byte
	sig     []byte
}

func (v *spyVerifier) Algorithm() Algorithm { return v.alg }
func (v *spyVerifier) Verify(content, signature []byte) error {
	v.calls++
	v.content = content
	v.sig = signature
	if v.fail {
		if v.failErr != nil {
			return v.failErr
		}
		return errSpyVerify
	}
	return nil
}

// ---- symbolic header material -----------------------------------------------------------------------

// mkLabel: a header label spelt with any Go integer kind (value symbolic) or as a string.
func mkLabel(name string, allowString bool) any {
	n := 10
	if allowString {
		n = 11
	}
	k := vChoose(name+".kind", n)
	if k == 10 {
		return vStr(name+".s", 2)
	}
	return mkIntOfKind(k, vInt64(name+".v"))
}

func mkIntOfKind(k int, v int64) any {
	switch k {
	case 0:
		return v
	case 1:
		return int(v)
	case 2:
		return int8(v)
	case 3:
		return int16(v)
	case 4:
		return int32(v)
	case 5:
		return uint(v)
	case 6:
		return uint8(v)
	case 7:
		return uint16(v)
	case 8:
		return uint32(v)
	}
	return uint64(v)
}

// normLabel: the CBOR-level identity of a label (what ends up on the wire).
// ok=false for values that cannot be a COSE label; uint64 values above
// MaxInt64 are reported as big=true.
func normLabel(l any) (isInt bool, iv int64, sv string, ok bool, big bool) {
	switch v := l.(type) {
	case int:
		return true, int64(v), "", true, false
	case int8:
		return true, int64(v), "", true, false
	case int16:
		return true, int64(v), "", true, false
	case int32:
		return true, int64(v), "", true, false
	case int64:
		return true, v, "", true, false
	case uint:
		return true, int64(v), "", true, uint64(v) > 1<<63-1
	case uint8:
		return true, int64(v), "", true, false
	case uint16:
		return true, int64(v), "", true, false
	case uint32:
		return true, int64(v), "", true, false
	case uint64:
		return true, int64(v), "", true, v > 1<<63-1
	case string:
		return false, 0, v, true, false
	}
	return false, 0, "", false, false
}

// mkExternal: nil, empty, or any non-empty external data
func mkExternal(name string) []byte {
	switch vChoose(name+".kind", 3) {
	case 0:
		return nil
	case 1:
		return []byte{}
	}
	return vBlobN(name, 1, 1<<31-1)
}

// mkSimpleValue: header value kinds that carry no rules of their own
func mkSimpleValue(name string) any {
	switch vChoose(name+".vkind", 6) {
	case 0:
		return vInt64(name + ".i")
	case 1:
		return vBlob(name + ".b")
	case 2:
		return vStr(name+".s", 3)
	case 3:
		return vBool(name + ".t")
	case 4:
		return nil
	}
	return []any{vInt64(name + ".e0"), vBlob(name + ".e1")}
}

// mkBenignMap: up to n entries with distinct labels outside the registered
// range (so that no parameter rule applies); values are opaque byte strings of
// any length (which makes the encoded map cross every length-prefix boundary)
// or integers. rich=true adds the other value kinds.
func mkBenignMap(name string, n int, rich bool) map[any]any {
	cnt := vChoose(name+".n", n+1)
	m := map[any]any{}
	var labels []int64
	for i := 0; i < cnt; i++ {
		nm := name + "." + string(rune('a'+i))
		v := vInt64(nm + ".label")
		vAssume(vOr(v > 300, v < -300))
		for _, o := range labels {
			vAssume(v != o)
		}
		labels = append(labels, v)
		if rich {
			m[v] = mkSimpleValue(nm)
		} else if i == 0 {
			m[v] = vBlob(nm + ".b")
		} else {
			m[v] = vInt64(nm + ".i")
		}
	}
	return m
}

// ---- symbolic wire messages (a peer's encoder: every head width is a free choice) ----------------------

// mkWireHeaderMap: a header map with 0..n benign entries (labels outside the
// registered range, byte-string / integer values), arbitrary head widths.
func mkWireHeaderMap(name string, n int) *vNodeT {
	cnt := vChoose(name+".n", n+1)
	var pairs []*vNodeT
	var labels []int64
	for i := 0; i < cnt; i++ {
		nm := name + "." + string(rune('a'+i))
		v := vInt64(nm + ".label")
		vAssume(v > 300)
		for _, o := range labels {
			vAssume(v != o)
		}
		labels = append(labels, v)
		k := nnInt(0, uint64(v), vWidth(nm+".kw", uint64(v)))
		var val *vNodeT
		if i == 0 {
			b := vBlob(nm + ".b")
			val = nnBstr(b, vWidth(nm+".vw", uint64(len(b))))
		} else {
			x := vUint64(nm + ".i")
			vAssume(x <= 1<<63-1) // documented limit: integers within int64
			val = nnInt(vChoose(nm+".sign", 2), x, vWidth(nm+".vw", x))
		}
		pairs = append(pairs, k, val)
	}
	return nnMap(pairs, vWidth(name+".mw", uint64(cnt)))
}

// mkWireProtected: h'', h'a0' or a wrapped header map; returns the bstr node and its content
func mkWireProtected(name string, n int) (*vNodeT, []byte) {
	var content []byte
	switch vChoose(name+".form", 3) {
	case 0:
		content = []byte{}
	case 1:
		content = vSer(nnMap(nil, vWidth(name+".ew", 0)))
	default:
		m := mkWireHeaderMap(name, n)
		vAssume(nLen(m) > 0)
		content = vSer(m)
	}
	return nnBstr(content, vWidth(name+".bw", uint64(len(content)))), content
}

func mkWireBstr(name string, lo, hi int) (*vNodeT, []byte) {
	b := vBlobN(name, lo, hi)
	return nnBstr(b, vWidth(name+".w", uint64(len(b)))), b
}

// vPriorUse: earlier in the process an unrelated message with an empty protected bucket was decoded and its
// owner edited the decoded header maps (they belong to the caller): later decodes must not see those edits
func vPriorUse(name string) {
	if vChoose(name+".prior", 2) == 0 {
		return
	}
	a := Algorithm(vInt64(name + ".prior.alg"))
	edit := func(h *Headers) {
		if h.Protected != nil {
			h.Protected.SetAlgorithm(a)
			h.Protected[int64(33)] = []byte{1}
		}
		if h.Unprotected != nil {
			h.Unprotected[int64(4)] = []byte{2}
		}
	}
	body := nnArray([]*vNodeT{nnBstr([]byte{}, 0), nnMap(nil, 0), nnBstr(vBlobN(name+".prior.payload", 0, 8), -1), nnBstr(vBlobN(name+".prior.sig", 1, 8), -1)}, 0)
	var o Sign1Message
	if o.UnmarshalCBOR(vSer(nnTag(18, body, 0))) == nil {
		edit(&o.Headers)
	}
	var sg Signature
	if sg.UnmarshalCBOR(vSer(nnArray([]*vNodeT{nnBstr([]byte{}, 0), nnMap(nil, 0), nnBstr(vBlobN(name+".prior.ssig", 1, 8), -1)}, 0))) == nil {
		edit(&sg.Headers)
	}
}

// vOtherTraffic: the library is used on an unrelated message between two steps of a harness
// (decoders and encoders must not communicate through hidden state)
func vOtherTraffic(name string) {
	if vChoose(name+".traffic", 2) == 0 {
		return
	}
	kid := vBlobN(name+".t.kid", 1, 8)
	prot := vSer(nnMap([]*vNodeT{nnInt(0, 1, -1), nnInt(1, 6, -1), nnInt(0, 4, -1), nnBstr(kid, -1)}, -1))
	un := nnMap([]*vNodeT{nnInt(0, 4, -1), nnBstr(vBlobN(name+".t.ukid", 1, 8), -1)}, -1)
	body := nnArray([]*vNodeT{nnBstr(prot, -1), un, nnBstr(vBlobN(name+".t.payload", 0, 64), -1), nnBstr(vBlobN(name+".t.sig", 1, 64), -1)}, 0)
	var o Sign1Message
	if o.UnmarshalCBOR(vSer(nnTag(18, body, 0))) == nil {
		o.MarshalCBOR()
	}
	var os SignMessage
	sg := nnArray([]*vNodeT{nnBstr(prot, -1), nnMap(nil, 0), nnBstr(vBlobN(name+".t.ssig", 1, 64), -1)}, 0)
	if os.UnmarshalCBOR(vSer(nnTag(98, nnArray([]*vNodeT{nnBstr([]byte{}, 0), nnMap(nil, 0), nnBstr(vBlobN(name+".t.spayload", 0, 64), -1), nnArray([]*vNodeT{sg}, 0)}, 0), 1))) == nil {
		os.MarshalCBOR()
	}
}


// yieldingSigner / yieldingVerifier: a Signer / Verifier (HSM queue, remote KMS) in front of which the caller waits:
// other goroutines run between the moment the library hands over the bytes and the moment they are read
type yieldingSigner struct{ inner Signer }

func (y yieldingSigner) Algorithm() Algorithm { return y.inner.Algorithm() }
func (y yieldingSigner) Sign(r io.Reader, c []byte) ([]byte, error) {
	vYield()
	return y.inner.Sign(r, c)
}

type yieldingVerifier struct{ inner Verifier }

func (y yieldingVerifier) Algorithm() Algorithm { return y.inner.Algorithm() }
func (y yieldingVerifier) Verify(c, sig []byte) error {
	vYield()
	return y.inner.Verify(c, sig)
}

// lateSpySigner records what it was handed at the time it gets to look at it
type lateSpySigner struct {
	alg     Algorithm
	sig     []byte
	content []byte
	calls   int
}

func (s *lateSpySigner) Algorithm() Algorithm { return s.alg }
func (s *lateSpySigner) Sign(r io.Reader, c []byte) ([]byte, error) {
	vYield()
	s.calls++
	s.content = append([]byte{}, c...)
	return s.sig, nil
}
