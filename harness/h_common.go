//go:build verif

package cose

import (
	"crypto"
	"crypto/elliptic"
	_ "crypto/sha256"
	_ "crypto/sha512"
	"errors"
)

// refOrderSize: RFC 9053 section 2.1 - byte length of the curve order (written
// independently of the library: a table by curve name).
func refOrderSize(c elliptic.Curve) int {
	switch c.Params().Name {
	case "P-256":
		return 32
	case "P-384":
		return 48
	case "P-521":
		return 66
	case "P-224":
		return 28
	}
	return -1
}

// refHashOfAlg: RFC 9053 tables 1 and RFC 8230 table 2.
func refHashOfAlg(a int64) int {
	switch a {
	case -7, -37, -16:
		return int(crypto.SHA256)
	case -35, -38, -43:
		return int(crypto.SHA384)
	case -36, -39, -44:
		return int(crypto.SHA512)
	}
	return 0
}

func computeHashRef(h int, data []byte) ([]byte, error) {
	hh := crypto.Hash(h)
	if !hh.Available() {
		return nil, errors.New("hash unavailable")
	}
	w := hh.New()
	w.Write(data)
	return w.Sum(nil), nil
}
