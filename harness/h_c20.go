//go:build verif

package cose

import (
	"crypto"
	"crypto/ed25519"
	"errors"
	"io"
)

func init() {
	vRegister("H_C20_sign1_helpers", H_C20_sign1_helpers)
	vRegister("H_C20_msg_sign", H_C20_msg_sign)
	vRegister("H_C20_countersign", H_C20_countersign)
	vRegister("H_C20_hashenv", H_C20_hashenv)
	vRegister("H_C20_verify", H_C20_verify)
	vRegister("H_C20_builtin_signers", H_C20_builtin_signers)
	vRegister("H_C20_entropy", H_C20_entropy)
	vRegister("H_C20_builtin_empty", H_C20_builtin_empty)
	vRegister("H_C20_encoders_refuse_empty", H_C20_encoders_refuse_empty)
	vRegister("H_C20_sign_message", H_C20_sign_message)
}

// outcome of one signer call: 0 ok non-empty, 1 ok but empty, 2 error
func mkFaultySigner(name string) (*spySigner, int) {
	o := vChoose(name+".outcome", 3)
	sp := &spySigner{alg: Algorithm(vInt64(name + ".alg"))}
	switch o {
	case 0:
		sp.sig = vBlobN(name+".sig", 1, 200)
	case 1:
		sp.sig = []byte{}
	case 2:
		sp.fail = true
		sp.sig = vBlobN(name+".garbage", 0, 50)
	}
	return sp, o
}

// wireSignatureLen: the signature length inside an emitted COSE_Sign1 (tagged or not); -1 if unparsable
func wireSign1SigLen(out []byte, tagged bool) int {
	w := vParse(out)
	if w == nil {
		return -1
	}
	if tagged {
		if nMajor(w) != 6 {
			return -1
		}
		w = nChild(w, 0)
	}
	if nMajor(w) != 4 || nLen(w) != 4 || nMajor(nChild(w, 3)) != 2 {
		return -1
	}
	return len(nBytes(nChild(w, 3)))
}

func H_C20_sign1_helpers() {
	sp, o := mkFaultySigner("k")
	hdr := Headers{Protected: ProtectedHeader(mkBenignMap("p", 1, false)), Unprotected: UnprotectedHeader{}}
	payload := vBlob("payload")
	ext := mkExternal("ext")
	tagged := vChoose("tagged", 2) == 0
	var out []byte
	var err error
	if tagged {
		out, err = Sign1(nil, sp, hdr, payload, ext)
	} else {
		out, err = Sign1Untagged(nil, sp, hdr, payload, ext)
	}
	switch o {
	case 2:
		if sp.calls > 0 {
			vAssert("helper: the signer's error is returned", err == errSpySign)
		}
		vAssert("helper: failure is an error", err != nil)
		vAssert("helper: no bytes with an error", out == nil)
	case 1:
		vAssert("helper: an empty signature is an error", err != nil)
		vAssert("helper: no bytes with an error", out == nil)
	case 0:
		if err == nil {
			vAssert("helper: returned message carries a non-empty signature", wireSign1SigLen(out, tagged) > 0)
		} else {
			vAssert("helper: no bytes with an error", out == nil)
		}
	}
	vReach("end")
}

func H_C20_msg_sign() {
	sp, o := mkFaultySigner("k")
	msg := &Sign1Message{Headers: Headers{Protected: ProtectedHeader(mkBenignMap("p", 1, false)), Unprotected: UnprotectedHeader{}}, Payload: vBlob("payload")}
	err := msg.Sign(nil, mkExternal("ext"), sp)
	if o == 2 {
		vAssert("Sign1Message.Sign: failure is an error", err != nil)
		if sp.calls > 0 {
			vAssert("Sign1Message.Sign: the signer's error is returned", err == errSpySign)
		}
		vAssert("Sign1Message.Sign: no signature stored on failure", len(msg.Signature) == 0)
	}
	if err != nil {
		vAssert("Sign1Message.Sign: no signature stored with an error", len(msg.Signature) == 0)
	}
	out, merr := msg.MarshalCBOR()
	if len(msg.Signature) == 0 {
		vAssert("Sign1Message: unsigned message cannot be encoded", merr != nil && out == nil)
	}
	if merr == nil {
		vAssert("Sign1Message: emitted signature non-empty", wireSign1SigLen(out, true) > 0)
	}
	// untagged twin
	um := (*UntaggedSign1Message)(msg)
	uout, uerr := um.MarshalCBOR()
	if len(msg.Signature) == 0 {
		vAssert("UntaggedSign1Message: unsigned message cannot be encoded", uerr != nil && uout == nil)
	}
	vReach("end")
}

func mkSignedParent(name string) any {
	sig := vBlobN(name+".sig", 1, 100)
	switch vChoose(name+".kind", 4) {
	case 0:
		return &Sign1Message{Headers: Headers{Protected: ProtectedHeader{}, Unprotected: UnprotectedHeader{}}, Payload: vBlob(name + ".payload"), Signature: sig}
	case 1:
		return &SignMessage{Headers: Headers{Protected: ProtectedHeader{}, Unprotected: UnprotectedHeader{}}, Payload: vBlob(name + ".payload"),
			Signatures: []*Signature{{Headers: Headers{Protected: ProtectedHeader{}, Unprotected: UnprotectedHeader{}}, Signature: sig}}}
	case 2:
		return &Signature{Headers: Headers{Protected: ProtectedHeader{}, Unprotected: UnprotectedHeader{}}, Signature: sig}
	}
	return &Countersignature{Headers: Headers{Protected: ProtectedHeader{}, Unprotected: UnprotectedHeader{}}, Signature: sig}
}

func H_C20_countersign() {
	sp, o := mkFaultySigner("k")
	parent := mkSignedParent("parent")
	ext := mkExternal("ext")
	if vChoose("form", 2) == 0 {
		cs := NewCountersignature()
		err := cs.Sign(nil, sp, parent, ext)
		if o == 2 {
			vAssert("Countersignature.Sign: failure is an error", err != nil)
			if sp.calls > 0 {
				vAssert("Countersignature.Sign: the signer's error is returned", err == errSpySign)
			}
		}
		if err != nil {
			vAssert("Countersignature.Sign: no signature stored with an error", len(cs.Signature) == 0)
		}
		out, merr := cs.MarshalCBOR()
		if len(cs.Signature) == 0 {
			vAssert("Countersignature: unsigned value cannot be encoded", merr != nil && out == nil)
		}
		// as a header value of a message: the message cannot be encoded either
		host := &Sign1Message{Headers: Headers{Protected: ProtectedHeader{}, Unprotected: UnprotectedHeader{HeaderLabelCounterSignatureV2: cs}}, Payload: []byte("x"), Signature: []byte{1}}
		hout, herr := host.MarshalCBOR()
		if len(cs.Signature) == 0 {
			vAssert("message holding an unsigned countersignature cannot be encoded", herr != nil && hout == nil)
		}
		vReach("full")
		return
	}
	sig, err := Countersign0(nil, sp, parent, ext)
	if o == 2 {
		vAssert("Countersign0: failure is an error", err != nil)
		vAssert("Countersign0: the signer's error is returned", err == errSpySign)
		vAssert("Countersign0: no bytes with an error", sig == nil)
	}
	if err != nil {
		vAssert("Countersign0: no bytes with any error", sig == nil)
	}
	vReach("abbreviated")
}

func H_C20_hashenv() {
	sp, o := mkFaultySigner("k")
	hv := vBlobN("hash", 32, 32)
	out, err := SignHashEnvelope(nil, sp, Headers{}, HashEnvelopePayload{HashAlgorithm: AlgorithmSHA256, HashValue: hv})
	if o != 0 {
		vAssert("SignHashEnvelope: failing / empty signer is an error", err != nil)
		vAssert("SignHashEnvelope: no bytes with an error", out == nil)
		if o == 2 && sp.calls > 0 {
			vAssert("SignHashEnvelope: the signer's error is returned", err == errSpySign)
		}
	} else if err == nil {
		vAssert("SignHashEnvelope: returned envelope carries a non-empty signature", wireSign1SigLen(out, true) > 0)
	} else {
		vAssert("SignHashEnvelope: no bytes with an error", out == nil)
	}
	vReach("end")
}

// a verifier's error is propagated unchanged and never becomes nil
func H_C20_verify() {
	fail := vBool("vfail")
	sv := &spyVerifier{alg: AlgorithmES256, fail: fail}
	wantErr := errSpyVerify
	if vChoose("failkind", 2) == 1 { // a rejecting verifier may report the library's own ErrVerification (the built-in ones do)
		sv.failErr = ErrVerification
		wantErr = ErrVerification
	}
	ext := mkExternal("ext")
	sig := vBlobN("sig", 1, 100)
	prot := ProtectedHeader{HeaderLabelAlgorithm: AlgorithmES256}
	var err error
	switch vChoose("api", 6) {
	case 0:
		m := &Sign1Message{Headers: Headers{Protected: prot, Unprotected: UnprotectedHeader{}}, Payload: vBlob("payload"), Signature: sig}
		err = m.Verify(ext, sv)
	case 1:
		m := &UntaggedSign1Message{Headers: Headers{Protected: prot, Unprotected: UnprotectedHeader{}}, Payload: vBlob("payload"), Signature: sig}
		err = m.Verify(ext, sv)
	case 2: // one or two signers; the verifier under test sits at either position, the other one accepts
		m := &SignMessage{Headers: Headers{Protected: ProtectedHeader{}, Unprotected: UnprotectedHeader{}}, Payload: vBlob("payload"),
			Signatures: []*Signature{{Headers: Headers{Protected: prot, Unprotected: UnprotectedHeader{}}, Signature: sig}}}
		switch vChoose("signers", 3) {
		case 0:
			err = m.Verify(ext, sv)
		case 1:
			m.Signatures = append(m.Signatures, &Signature{Headers: Headers{Protected: ProtectedHeader{HeaderLabelAlgorithm: AlgorithmES256}, Unprotected: UnprotectedHeader{}}, Signature: vBlobN("sig2", 1, 100)})
			err = m.Verify(ext, sv, &spyVerifier{alg: AlgorithmES256})
		case 2:
			m.Signatures = append(m.Signatures, &Signature{Headers: Headers{Protected: ProtectedHeader{HeaderLabelAlgorithm: AlgorithmES256}, Unprotected: UnprotectedHeader{}}, Signature: vBlobN("sig2", 1, 100)})
			err = m.Verify(ext, &spyVerifier{alg: AlgorithmES256}, sv)
		}
	case 3:
		cs := &Countersignature{Headers: Headers{Protected: prot, Unprotected: UnprotectedHeader{}}, Signature: sig}
		err = cs.Verify(sv, mkSignedParent("parent"), ext)
	case 4:
		err = VerifyCountersign0(sv, mkSignedParent("parent"), ext, sig)
	case 5:
		s := &Signature{Headers: Headers{Protected: prot, Unprotected: UnprotectedHeader{}}, Signature: sig}
		err = s.Verify(sv, []byte{0x40}, vBlob("payload"), ext)
	}
	if fail {
		vAssert("verify: a verifier error never becomes nil", err != nil)
		if sv.calls > 0 {
			vAssert("verify: the verifier's error is returned unchanged", err == wantErr)
		}
	} else {
		vAssert("verify: verifier success is success", err == nil)
	}
	vReach("end")
}

type failingCryptoSigner struct {
	pub   crypto.PublicKey
	calls int
}

func (f *failingCryptoSigner) Public() crypto.PublicKey { return f.pub }
func (f *failingCryptoSigner) Sign(r io.Reader, d []byte, o crypto.SignerOpts) ([]byte, error) {
	f.calls++
	return nil, errSpy
}

// built-in signers over a failing key / HSM: error returned, no bytes, nothing stored
func H_C20_builtin_signers() {
	var alg Algorithm
	var pub crypto.PublicKey
	switch vChoose("family", 3) {
	case 0:
		alg, pub = AlgorithmES256, &vECKey("ec", vCurveByIndex(0)).PublicKey
	case 1:
		alg, pub = AlgorithmPS256, &vRSAKeyValid("rsa").PublicKey
	case 2:
		alg, pub = AlgorithmEdDSA, ed25519.PublicKey(vBlobN("edpub", 32, 32))
	}
	key := &failingCryptoSigner{pub: pub}
	signer, err := NewSigner(alg, key)
	vAssume(err == nil)
	msg := &Sign1Message{Headers: Headers{Protected: ProtectedHeader{}, Unprotected: UnprotectedHeader{}}, Payload: vBlob("payload")}
	serr := msg.Sign(vRand(), nil, signer)
	vAssert("builtin: key failure is an error", serr != nil)
	vAssert("builtin: the key's error is returned", errors.Is(serr, errSpy))
	vAssert("builtin: nothing stored", len(msg.Signature) == 0)
	out, merr := Sign1(vRand(), signer, Headers{}, vBlob("p2"), nil)
	vAssert("builtin: Sign1 returns the error and no bytes", merr != nil && out == nil)
	vReach("end")
}

// the entropy source itself fails (exhausted, short, device error) under a built-in signer that needs it: the
// reader's own error comes back, nothing is stored, nothing is returned - for native keys and wrapped ones
func H_C20_entropy() {
	var alg Algorithm
	var key crypto.Signer
	switch vChoose("family", 2) {
	case 0:
		c := vChoose("curve", 3)
		alg = []Algorithm{AlgorithmES256, AlgorithmES384, AlgorithmES512}[c]
		key = vECKeyValid("ec", vCurveByIndex(c))
	case 1:
		alg, key = AlgorithmPS256, vRSAKeyValid("rsa")
	}
	if vChoose("wrapped", 2) == 1 {
		key = &wrappedKey{inner: key}
	}
	signer, err := NewSigner(alg, key)
	vAssume(err == nil)
	rd := vFailRand(vChoose("failure", 3))
	msg := &Sign1Message{Headers: Headers{Protected: ProtectedHeader{}, Unprotected: UnprotectedHeader{}}, Payload: vBlob("payload")}
	serr := msg.Sign(rd, nil, signer)
	vAssert("entropy: a failing entropy source is an error", serr != nil)
	vAssert("entropy: the source's own error is returned", vIsRandErr(serr, rd))
	vAssert("entropy: nothing stored", len(msg.Signature) == 0)
	_, merr := msg.MarshalCBOR()
	vAssert("entropy: the unsigned message cannot be serialised", merr != nil)
	out, herr := Sign1(rd, signer, Headers{}, vBlob("p2"), nil)
	vAssert("entropy: Sign1 returns the error and no bytes", herr != nil && out == nil)
	// second slot of a COSE_Sign fails the same way: the call reports it and the message stays unserialisable
	sm := &SignMessage{Headers: Headers{Protected: ProtectedHeader{}, Unprotected: UnprotectedHeader{}}, Payload: vBlob("p3"),
		Signatures: []*Signature{{Headers: Headers{Protected: ProtectedHeader{}, Unprotected: UnprotectedHeader{}}}}}
	smerr := sm.Sign(rd, nil, signer)
	vAssert("entropy: COSE_Sign reports the failure", smerr != nil && vIsRandErr(smerr, rd))
	_, smm := sm.MarshalCBOR()
	vAssert("entropy: the half-signed COSE_Sign cannot be serialised", smm != nil)
	vReach("end")
}

// emptyCryptoSigner: a key (HSM / KMS wrapper) that reports success but hands back nothing, or a truncated result
type emptyCryptoSigner struct {
	pub crypto.PublicKey
	out []byte
}

func (f *emptyCryptoSigner) Public() crypto.PublicKey { return f.pub }
func (f *emptyCryptoSigner) Sign(r io.Reader, d []byte, o crypto.SignerOpts) ([]byte, error) {
	return f.out, nil
}

// built-in signers over such a key: no helper returns a message, nothing non-empty is invented
func H_C20_builtin_empty() {
	var alg Algorithm
	var pub crypto.PublicKey
	switch vChoose("family", 3) {
	case 0:
		alg, pub = AlgorithmES256, &vECKey("ec", vCurveByIndex(0)).PublicKey
	case 1:
		alg, pub = AlgorithmPS256, &vRSAKeyValid("rsa").PublicKey
	case 2:
		alg, pub = AlgorithmEdDSA, ed25519.PublicKey(vBlobN("edpub", 32, 32))
	}
	var ret []byte
	if vChoose("ret", 2) == 1 {
		ret = []byte{}
	}
	key := &emptyCryptoSigner{pub: pub, out: ret}
	signer, err := NewSigner(alg, key)
	vAssume(err == nil)
	sig, serr := signer.Sign(vRand(), vBlob("content"))
	vAssert("empty key result: the signer returns an error or passes the emptiness on", serr != nil || len(sig) == 0)
	var out []byte
	var herr error
	switch vChoose("helper", 4) {
	case 0:
		out, herr = Sign1(vRand(), signer, Headers{}, vBlob("payload"), nil)
	case 1:
		out, herr = Sign1Untagged(vRand(), signer, Headers{}, vBlob("payload"), nil)
	case 2:
		out, herr = SignHashEnvelope(vRand(), signer, Headers{}, HashEnvelopePayload{HashAlgorithm: AlgorithmSHA256, HashValue: vBlobN("hash", 32, 32)})
	case 3:
		m := &SignMessage{Headers: Headers{Protected: ProtectedHeader{}, Unprotected: UnprotectedHeader{}}, Payload: vBlob("payload"), Signatures: []*Signature{NewSignature()}}
		if herr = m.Sign(vRand(), nil, signer); herr == nil {
			out, herr = m.MarshalCBOR()
		}
	}
	vAssert("empty key result: no helper returns a message", herr != nil && out == nil)
	vReach("end")
}

// every encoder refuses any message value with an empty signature
func H_C20_encoders_refuse_empty() {
	hdr := Headers{Protected: ProtectedHeader(mkBenignMap("p", 1, false)), Unprotected: UnprotectedHeader(mkBenignMap("u", 1, false))}
	var empty []byte
	if vChoose("emptykind", 2) == 1 {
		empty = []byte{}
	}
	var out []byte
	var err error
	switch vChoose("type", 5) {
	case 0:
		out, err = (&Sign1Message{Headers: hdr, Payload: vBlob("payload"), Signature: empty}).MarshalCBOR()
	case 1:
		out, err = (&UntaggedSign1Message{Headers: hdr, Payload: vBlob("payload"), Signature: empty}).MarshalCBOR()
	case 2:
		out, err = (&Signature{Headers: hdr, Signature: empty}).MarshalCBOR()
	case 3:
		out, err = (&Countersignature{Headers: hdr, Signature: empty}).MarshalCBOR()
	case 4:
		good := &Signature{Headers: Headers{Protected: ProtectedHeader{}, Unprotected: UnprotectedHeader{}}, Signature: vBlobN("good", 1, 10)}
		bad := &Signature{Headers: Headers{Protected: ProtectedHeader{}, Unprotected: UnprotectedHeader{}}, Signature: empty}
		sigs := []*Signature{good, bad}
		if vChoose("order", 2) == 1 {
			sigs = []*Signature{bad, good}
		}
		out, err = (&SignMessage{Headers: hdr, Payload: vBlob("payload"), Signatures: sigs}).MarshalCBOR()
	}
	vAssert("encoders: empty signature refused", err != nil)
	vAssert("encoders: no bytes", out == nil)
	vReach("end")
}

// COSE_Sign with n signers, each with its own outcome (ok / ok-but-empty / error with garbage bytes)
func H_C20_sign_message() {
	maxN := 3
	if vTier() == 1 {
		maxN = 4
	}
	n := 1 + vChoose("n", maxN)
	msg := &SignMessage{Headers: Headers{Protected: ProtectedHeader{}, Unprotected: UnprotectedHeader{}}, Payload: vBlob("payload")}
	var spies []*spySigner
	var outcomes []int
	var signers []Signer
	for i := 0; i < n; i++ {
		msg.Signatures = append(msg.Signatures, NewSignature())
		sp, o := mkFaultySigner("k" + vItoa(i))
		spies, outcomes, signers = append(spies, sp), append(outcomes, o), append(signers, sp)
	}
	err := msg.Sign(nil, mkExternal("ext"), signers...)
	firstFail := -1
	for i := 0; i < n; i++ {
		if outcomes[i] == 2 && spies[i].calls > 0 && firstFail < 0 {
			firstFail = i
		}
	}
	if firstFail >= 0 {
		vAssert("COSE_Sign: the failing signer's error is returned", err == errSpySign)
		vAssert("COSE_Sign: no signature stored for the failing slot", len(msg.Signatures[firstFail].Signature) == 0)
		for j := firstFail + 1; j < n; j++ {
			vAssert("COSE_Sign: signers after the failure are not called", spies[j].calls == 0)
			vAssert("COSE_Sign: slots after the failure stay empty", len(msg.Signatures[j].Signature) == 0)
		}
	}
	for i := 0; i < n; i++ {
		if outcomes[i] == 2 {
			vAssert("COSE_Sign: a failing signer never leaves bytes in its slot", len(msg.Signatures[i].Signature) == 0)
		}
	}
	allFilled := true
	for i := 0; i < n; i++ {
		if len(msg.Signatures[i].Signature) == 0 {
			allFilled = false
		}
	}
	out, merr := msg.MarshalCBOR()
	if !allFilled || err != nil && firstFail >= 0 {
		vAssert("COSE_Sign: a message with a failed / empty slot cannot be serialised", merr != nil && out == nil)
	}
	if merr == nil {
		// every emitted COSE_Signature carries a non-empty signature
		w := vParse(out)
		ok := w != nil && nMajor(w) == 6 && nMajor(nChild(w, 0)) == 4 && nLen(nChild(w, 0)) == 4
		vAssert("COSE_Sign: output parses", ok)
		if ok {
			sa := nChild(nChild(w, 0), 3)
			for i := 0; i < nLen(sa); i++ {
				sn := nChild(sa, i)
				vAssert("COSE_Sign: no empty signature on the wire", nMajor(sn) == 4 && nLen(sn) == 3 && len(nBytes(nChild(sn, 2))) > 0)
			}
		}
	}
	vReach("end")
}
