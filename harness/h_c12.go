//go:build verif

package cose

func init() {
	vRegister("H_C12_sign", H_C12_sign)
	vRegister("H_C12_sign_raw_buckets", H_C12_sign_raw_buckets)
	vRegister("H_C12_verify", H_C12_verify)
}

// refDigestSize: RFC 9054 table - digest sizes of the hash algorithms the library knows
func refDigestSize(a int64) int {
	switch a {
	case -16:
		return 32
	case -43:
		return 48
	case -44:
		return 64
	}
	return -1
}

// c12GoEntry: an entry for a caller-supplied base header: governed labels in any spelling, or others
func c12GoEntry(name string, m map[any]any, dim int) (governed int64, present bool) {
	switch c07Pick(name+".what", 3, dim) {
	case 0:
		return 0, false
	case 1: // one of the governed labels, spelt with some Go integer kind
		l := []int64{3, 258, 259, 260}[vChoose(name+".gl", 4)]
		var v any
		switch vChoose(name+".gv", 3) {
		case 0:
			v = vInt64(name + ".gvi")
		case 1:
			gs := vStr(name+".gvs", 3)
			vAssume(vUTF8(gs))
			v = gs
		case 2:
			v = vBlob(name + ".gvb")
		}
		m[mkIntOfKind([]int{0, 1, 7}[vChoose(name+".lk", 3)], l)] = v
		return l, true
	}
	// an unrelated label
	l := vInt64(name + ".ol")
	vAssume(vAnd(l != 3, vOr(l < 258, l > 260)))
	vAssume(vOr(l > 300, l < -300))
	m[l] = vBlob(name + ".ov")
	return 0, false
}

// wire helpers over the emitted envelope
func c12FindInt(m *vNodeT, label uint64) *vNodeT {
	for i := 0; i < nLen(m); i++ {
		if nMajor(nKey(m, i)) == 0 && nArg(nKey(m, i)) == label {
			return nVal(m, i)
		}
	}
	return nil
}

func c12EnvelopeParts(out []byte) (prot, unprot, payload *vNodeT, ok bool) {
	w := vParse(out)
	if w == nil || nMajor(w) != 6 || nArg(w) != 18 {
		return nil, nil, nil, false
	}
	a := nChild(w, 0)
	if nMajor(a) != 4 || nLen(a) != 4 || nMajor(nChild(a, 0)) != 2 || nMajor(nChild(a, 1)) != 5 {
		return nil, nil, nil, false
	}
	pc := nBytes(nChild(a, 0))
	if len(pc) == 0 {
		return nil, nil, nil, false
	}
	pm := vParse(pc)
	if pm == nil || nMajor(pm) != 5 {
		return nil, nil, nil, false
	}
	return pm, nChild(a, 1), nChild(a, 2), true
}

// baseGoverned: the caller's own protected base header already carries 259 / 260 (then they stay)
var c12BaseGoverned int64

func c12CheckEnvelope(tag string, out []byte, hashAlg int64, hv []byte, ctKind int, ctUint uint64, ctStr string, loc string) {
	pm, um, pl, ok := c12EnvelopeParts(out)
	vAssert(tag+": output is a COSE_Sign1 with a non-empty protected header", ok)
	if !ok {
		return
	}
	ha := c12FindInt(pm, 258)
	vAssert(tag+": 258 present in protected", ha != nil)
	if ha != nil {
		if hashAlg >= 0 {
			vAssert(tag+": 258 is the given hash algorithm", nMajor(ha) == 0 && nArg(ha) == uint64(hashAlg))
		} else {
			vAssert(tag+": 258 is the given hash algorithm", nMajor(ha) == 1 && nArg(ha) == uint64(-1-hashAlg))
		}
	}
	ct := c12FindInt(pm, 259)
	switch ctKind {
	case 0:
		if c12BaseGoverned != 259 {
			vAssert(tag+": 259 absent when not given", ct == nil)
		}
	case 1:
		vAssert(tag+": 259 is the given uint", ct != nil && nMajor(ct) == 0 && nArg(ct) == ctUint)
	case 2:
		vAssert(tag+": 259 is the given text", ct != nil && nMajor(ct) == 3 && string(nBytes(ct)) == ctStr)
	}
	lo := c12FindInt(pm, 260)
	if loc == "" {
		if c12BaseGoverned != 260 {
			vAssert(tag+": 260 absent when not given", lo == nil)
		}
	} else {
		vAssert(tag+": 260 is the given location", lo != nil && nMajor(lo) == 3 && string(nBytes(lo)) == loc)
	}
	vAssert(tag+": content type (3) absent from protected", c12FindInt(pm, 3) == nil)
	for _, l := range []uint64{3, 258, 259, 260} {
		vAssert(tag+": governed labels absent from unprotected", c12FindInt(um, l) == nil)
	}
	vAssert(tag+": payload is the hash value", nMajor(pl) == 2 && vRopeEq(nBytes(pl), hv))
	if sz := refDigestSize(hashAlg); sz >= 0 {
		vAssert(tag+": payload has the digest length of the hash algorithm", len(nBytes(pl)) == sz)
	}
}

func c12Payload(name string) (HashEnvelopePayload, int, uint64, string) {
	p := HashEnvelopePayload{HashAlgorithm: Algorithm(vInt64(name + ".hashalg")), HashValue: vBlobN(name+".hash", 0, 100)}
	ctKind := c07Pick(name+".ctkind", 5, 4)
	var ctU uint64
	var ctS string
	switch ctKind {
	case 1:
		ctU = vUint64(name + ".ctu")
		vAssume(ctU <= 1<<63-1) // documented limit: integers within int64
		switch vChoose(name+".ctgo", 3) {
		case 0:
			p.PreimageContentType = ctU
		case 1:
			vAssume(ctU <= 1<<31-1)
			p.PreimageContentType = int(ctU)
		case 2:
			vAssume(ctU <= 65535)
			p.PreimageContentType = uint16(ctU)
		}
	case 2:
		ctS = vStr(name+".cts", 3)
		vAssume(vUTF8(ctS)) // Go strings handed to the library are text
		p.PreimageContentType = ctS
	case 3: // negative integer: not a uint
		x := vInt64(name + ".ctneg")
		vAssume(x < 0)
		p.PreimageContentType = x
	case 4: // wrong type
		p.PreimageContentType = vBlob(name + ".ctbad")
	}
	if c07Pick(name+".loc", 2, 5) == 1 {
		p.Location = vStr(name+".locs", 3)
		vAssume(len(p.Location) > 0)
		vAssume(vUTF8(p.Location))
	}
	return p, ctKind, ctU, ctS
}

// produced envelopes conform, verify under the matching key and leave the caller's maps alone
func H_C12_sign() {
	c07Start(6) // quick: one dimension at a time; thorough: the product
	prot, unprot := map[any]any{}, map[any]any{}
	c12BaseGoverned, _ = c12GoEntry("bp", prot, 0)
	c12GoEntry("bu", unprot, 1)
	h := Headers{}
	if len(prot) > 0 || c07Pick("protmap", 2, 2) > 0 {
		h.Protected = ProtectedHeader(prot)
	}
	if len(unprot) > 0 || c07Pick("unprotmap", 2, 2) > 0 {
		h.Unprotected = UnprotectedHeader(unprot)
	}
	if c07Pick("rawprot", 2, 3) == 1 {
		h.RawProtected = vSer(nnBstr(vSer(nnMap([]*vNodeT{nnInt(0, 3, -1), nnInt(0, 0, -1)}, -1)), -1)) // would smuggle content type 3
	}
	pay, ctKind, ctU, ctS := c12Payload("pay")
	sp := &spySigner{alg: Algorithm(vInt64("alg")), sig: vBlobN("sig", 1, 100)}
	np, nu := len(prot), len(unprot)
	snapH := vSnapshot(&h)
	vFreeze()
	out, err := SignHashEnvelope(nil, sp, h, pay)
	changed := vChanged(&h, snapH)
	vUnfreeze()
	vAssert("sign: the caller's header maps and buffers are not written", !changed)
	vAssert("sign: the caller's maps keep their size", len(prot) == np && len(unprot) == nu)
	if err != nil {
		vAssert("sign: no bytes with an error", out == nil)
		vReach("refused")
		return
	}
	c12CheckEnvelope("sign", out, int64(pay.HashAlgorithm), pay.HashValue, map[int]int{0: 0, 1: 1, 2: 2, 3: 3, 4: 4}[ctKind], ctU, ctS, pay.Location)
	vAssert("sign: an envelope is produced only for uint / text content types", ctKind <= 2)
	// closure under the verifier
	sv := &spyVerifier{alg: sp.alg}
	m, verr := VerifyHashEnvelope(sv, out)
	vLogErr("verify", verr)
	vAssert("sign: VerifyHashEnvelope accepts what SignHashEnvelope produced", verr == nil)
	if verr == nil {
		ha, ok := m.Headers.Protected[HeaderLabelPayloadHashAlgorithm].(Algorithm)
		vAssert("sign: verified message carries the typed hash algorithm", ok && ha == pay.HashAlgorithm)
		vAssert("sign: verified message carries the hash value", vRopeEq(m.Payload, pay.HashValue))
	}
	vReach("end")
}

// caller-supplied raw unprotected bytes
func H_C12_sign_raw_buckets() {
	var pairs []*vNodeT
	governed := false
	var baseProt ProtectedHeader
	switch vChoose("raw.what", 4) {
	case 3: // IV in one bucket (raw bytes), Partial IV in the other (parsed protected map), either way round
		l := uint64(5 + vChoose("raw.ivl", 2))
		pairs = []*vNodeT{nnInt(0, l, -1), nnBstr(vBlobN("raw.iv", 1, 16), -1)}
		baseProt = ProtectedHeader{int64(11 - l): vBlobN("raw.otheriv", 1, 16)}
	case 1:
		l := []uint64{3, 258, 259, 260}[vChoose("raw.gl", 4)]
		pairs = []*vNodeT{nnInt(0, l, vWidth("raw.kw", l)), nnInt(0, 1, -1)}
		governed = true
	case 2:
		l := vUint64("raw.ol")
		vAssume(vAnd(l > 300, l <= 1<<63-1))
		pairs = []*vNodeT{nnInt(0, l, vWidth("raw.kw", l)), nnBstr(vBlob("raw.ov"), -1)}
	}
	c12BaseGoverned = 0
	h := Headers{RawUnprotected: vSer(nnMap(pairs, vWidth("raw.mw", uint64(len(pairs)/2)))), Protected: baseProt}
	// headers taken from a decoded message carry the parsed map as well (possibly edited since)
	umap := map[any]any{}
	switch vChoose("raw.withmap", 3) {
	case 1:
		h.Unprotected = UnprotectedHeader(umap)
	case 2:
		umap[int64(4)] = vBlob("raw.kid")
		h.Unprotected = UnprotectedHeader(umap)
	}
	nu := len(umap)
	hv := vBlobN("hash", 32, 32)
	sp := &spySigner{alg: AlgorithmES256, sig: vBlobN("sig", 1, 100)}
	vKnown("KF-C12-1", governed)
	snapH := vSnapshot(&h)
	vFreeze()
	out, err := SignHashEnvelope(nil, sp, h, HashEnvelopePayload{HashAlgorithm: AlgorithmSHA256, HashValue: hv})
	changed := vChanged(&h, snapH)
	vUnfreeze()
	vAssert("raw: the caller's header maps and buffers are not written", !changed && len(umap) == nu)
	if err != nil {
		vAssert("raw: no bytes with an error", out == nil)
		vReach("refused")
		return
	}
	_, verr := VerifyHashEnvelope(&spyVerifier{alg: AlgorithmES256}, out)
	vLogErr("verify", verr)
	vAssert("raw: VerifyHashEnvelope accepts what SignHashEnvelope produced", verr == nil)
	c12CheckEnvelope("raw", out, -16, hv, 0, 0, "", "")
	vReach("end")
}

// the verify side: governed labels anywhere, any type; accepted => conforming
func H_C12_verify() {
	mkVal := func(name string) *vNodeT {
		switch vChoose(name+".vk", 5) {
		case 0:
			x := vUint64(name + ".u")
			vAssume(x <= 1<<63-1)
			return nnInt(0, x, vWidth(name+".w", x))
		case 1:
			x := vUint64(name + ".n")
			vAssume(x <= 1<<63-1)
			return nnInt(1, x, vWidth(name+".w", x))
		case 2:
			s := vStr(name+".s", 3)
			return nnTstr(s, -1)
		case 3:
			return nnBstr(vBlob(name+".b"), -1)
		}
		return nnSimple(22, 0)
	}
	var pp, up []*vNodeT
	// alg so that Verify can proceed; absent or another algorithm: no message may come back
	algKind := vChoose("alg", 3)
	switch algKind {
	case 0:
		pp = append(pp, nnInt(0, 1, -1), nnInt(1, 6, -1))
	case 2:
		pp = append(pp, nnInt(0, 1, -1), nnInt(1, 36, -1))
	}
	type placed struct {
		label uint64
		node  *vNodeT
		prot  bool
	}
	var placedL []placed
	n := 1 + vChoose("nplaced", 2)
	for i := 0; i < n; i++ {
		nm := "g" + vItoa(i)
		l := []uint64{3, 258, 259, 260}[vChoose(nm+".label", 4)]
		for _, p := range placedL {
			vAssume(p.label != l)
		}
		v := mkVal(nm)
		inProt := vChoose(nm+".bucket", 2) == 0
		if inProt {
			pp = append(pp, nnInt(0, l, vWidth(nm+".kw", l)), v)
		} else {
			up = append(up, nnInt(0, l, vWidth(nm+".kw", l)), v)
		}
		placedL = append(placedL, placed{l, v, inProt})
	}
	payload := vBlobN("payload", 0, 100)
	sig := vBlobN("sig", 1, 100)
	wire := vSer(nnTag(18, nnArray([]*vNodeT{
		nnBstr(vSer(nnMap(pp, vWidth("pmw", uint64(len(pp)/2)))), -1),
		nnMap(up, vWidth("umw", uint64(len(up)/2))),
		nnBstr(payload, vWidth("plw", uint64(len(payload)))),
		nnBstr(sig, -1)}, 0), 0))
	sv := &spyVerifier{alg: AlgorithmES256, fail: vBool("sigbad")}
	m, err := VerifyHashEnvelope(sv, wire)
	if err != nil {
		vAssert("verify: no message with an error", m == nil)
		vReach("refused")
		return
	}
	vAssert("verify: a message is returned only if the signature verified", !sv.fail && sv.calls == 1)
	vAssert("verify: a message is returned only under the verifier's own algorithm", algKind == 0)
	var hashAlg int64
	has258 := false
	for _, p := range placedL {
		switch p.label {
		case 3:
			vAssert("verify: content type (3) absent from both buckets", false)
		case 258:
			vAssert("verify: 258 only in protected, integer", p.prot && (nMajor(p.node) == 0 || nMajor(p.node) == 1))
			has258 = true
			if nMajor(p.node) == 0 {
				hashAlg = int64(nArg(p.node))
			} else {
				hashAlg = -1 - int64(nArg(p.node))
			}
		case 259:
			vAssert("verify: 259 only in protected, uint or text", p.prot && (nMajor(p.node) == 0 || nMajor(p.node) == 3))
		case 260:
			vAssert("verify: 260 only in protected, text", p.prot && nMajor(p.node) == 3)
		}
	}
	vAssert("verify: 258 present", has258)
	if has258 {
		ha, ok := m.Headers.Protected[HeaderLabelPayloadHashAlgorithm].(Algorithm)
		vAssert("verify: returned message carries 258 typed as Algorithm", ok && int64(ha) == hashAlg)
		if sz := refDigestSize(hashAlg); sz >= 0 {
			vAssert("verify: digest length matches the hash algorithm", len(payload) == sz)
		}
	}
	vReach("end")
}
