//go:build verif

package cose

import (
	"crypto"
	"crypto/ecdsa"
	"crypto/ed25519"
	"crypto/rsa"
	"errors"
	"io"
)

func init() {
	vRegister("H_C17_digest_foreign", H_C17_digest_foreign)
	vRegister("H_C17_signer_matrix", H_C17_signer_matrix)
	vRegister("H_C17_verifier_matrix", H_C17_verifier_matrix)
	vRegister("H_C17_digest_ecdsa", H_C17_digest_ecdsa)
	vRegister("H_C17_digest_rsa", H_C17_digest_rsa)
	vRegister("H_C17_ed25519", H_C17_ed25519)
}

// family of an algorithm identifier per RFC 9053 / RFC 8230 (independent table)
func refFamily(a int64) int { // 0 none, 1 RSA-PSS, 2 ECDSA, 3 EdDSA
	switch a {
	case -37, -38, -39:
		return 1
	case -7, -35, -36:
		return 2
	case -8:
		return 3
	}
	return 0
}

type foreignSigner struct {
	pub crypto.PublicKey
}

func (f foreignSigner) Public() crypto.PublicKey { return f.pub }
func (f foreignSigner) Sign(r io.Reader, d []byte, o crypto.SignerOpts) ([]byte, error) {
	return nil, errSpy
}

// NewSigner succeeds exactly for (family, key kind) matches; alg is one symbolic int64
func H_C17_signer_matrix() {
	a := vInt64("alg")
	alg := Algorithm(a)
	kind := vChoose("keykind", 9)
	var key crypto.Signer
	keyFam := 0
	rsaBits := 0
	switch kind {
	case 0:
		k := vRSAKey("rsa")
		key, keyFam, rsaBits = k, 1, k.N.BitLen()
	case 1, 2, 3, 4:
		key, keyFam = vECKey("ec", vCurveByIndex(kind-1)), 2
	case 5:
		key, keyFam = vEdKey("ed"), 3
	case 6: // foreign signer, RSA public key
		k := vRSAKey("rsa")
		key, keyFam, rsaBits = foreignSigner{&k.PublicKey}, 1, k.N.BitLen()
	case 7: // foreign signer, ECDSA public key
		key, keyFam = foreignSigner{&vECKey("ec", vCurveByIndex(vChoose("curve", 4))).PublicKey}, 2
	case 8: // foreign signer with an unusable public key type
		key, keyFam = foreignSigner{"not a key"}, 0
	}
	signer, err := NewSigner(alg, key)
	fam := refFamily(a)
	switch {
	case fam == 0:
		vAssert("signer: reserved / RS* / unknown algorithm is ErrAlgorithmNotSupported", err != nil && errors.Is(err, ErrAlgorithmNotSupported))
		vAssert("signer: nil signer with error", signer == nil)
	case fam != keyFam:
		vAssert("signer: key of another family is ErrInvalidPubKey", err != nil && errors.Is(err, ErrInvalidPubKey))
		vAssert("signer: nil signer with error", signer == nil)
	case fam == 1 && rsaBits < 2048:
		vAssert("signer: RSA key below 2048 bits refused", err != nil)
		vAssert("signer: nil signer with error", signer == nil)
	default:
		vAssert("signer: matching adequate key accepted", err == nil)
		vAssume(err == nil)
		vAssert("signer: reports the requested algorithm", signer.Algorithm() == alg)
		_, isDS := signer.(DigestSigner)
		vAssert("signer: RSA/ECDSA signers are DigestSigners", isDS == (fam != 3))
	}
	vReach("end")
}



func H_C17_verifier_matrix() {
	a := vInt64("alg")
	alg := Algorithm(a)
	kind := vChoose("keykind", 8)
	var key crypto.PublicKey
	keyFam := 0
	rsaBits := 0
	pointOK := true
	switch kind {
	case 0:
		k := vRSAKey("rsa")
		key, keyFam, rsaBits = &k.PublicKey, 1, k.N.BitLen()
	case 1, 2, 3:
		k := vECKey("ec", vCurveByIndex(kind-1))
		key, keyFam = &k.PublicKey, 2
		pointOK = vOnCurve(&k.PublicKey)
	case 4: // curve unsupported by crypto/ecdh
		k := vECKey("ec", vCurveByIndex(3))
		key, keyFam = &k.PublicKey, 2
		pointOK = false
	case 5:
		key, keyFam = vEdKey("ed").Public(), 3
	case 6: // private keys are not public keys
		key, keyFam = vECKey("ec", vCurveByIndex(0)), 0
	case 7:
		key, keyFam = "not a key", 0
	}
	verifier, err := NewVerifier(alg, key)
	fam := refFamily(a)
	switch {
	case fam == 0:
		vAssert("verifier: reserved / RS* / unknown algorithm is ErrAlgorithmNotSupported", err != nil && errors.Is(err, ErrAlgorithmNotSupported))
		vAssert("verifier: nil with error", verifier == nil)
	case fam != keyFam:
		vAssert("verifier: key of another family is ErrInvalidPubKey", err != nil && errors.Is(err, ErrInvalidPubKey))
		vAssert("verifier: nil with error", verifier == nil)
	case fam == 1 && rsaBits < 2048:
		vAssert("verifier: RSA key below 2048 bits refused", err != nil)
		vAssert("verifier: nil with error", verifier == nil)
	case fam == 2 && !pointOK:
		vAssert("verifier: off-curve point / unsupported curve is ErrInvalidPubKey", err != nil && errors.Is(err, ErrInvalidPubKey))
		vAssert("verifier: nil with error", verifier == nil)
	default:
		vAssert("verifier: matching adequate key accepted", err == nil)
		vAssume(err == nil)
		vAssert("verifier: reports the requested algorithm", verifier.Algorithm() == alg)
		_, isDV := verifier.(DigestVerifier)
		vAssert("verifier: RSA/ECDSA verifiers are DigestVerifiers", isDV == (fam != 3))
	}
	vReach("end")
}

// Sign(content) == SignDigest(H_alg(content)); both verify through Verify and VerifyDigest
func H_C17_digest_ecdsa() {
	c := vCurve("curve")
	algs := []Algorithm{AlgorithmES256, AlgorithmES384, AlgorithmES512}
	alg := algs[vChoose("alg", 3)]
	key := vECKeyValid("key", c)
	signer, err := NewSigner(alg, key)
	vAssume(err == nil)
	verifier, err := NewVerifier(alg, &key.PublicKey)
	vAssume(err == nil)
	digestEquivalence(alg, signer, verifier)
}

func H_C17_digest_rsa() {
	algs := []Algorithm{AlgorithmPS256, AlgorithmPS384, AlgorithmPS512}
	alg := algs[vChoose("alg", 3)]
	key := vRSAKeyValid("key")
	signer, err := NewSigner(alg, key)
	vAssume(err == nil)
	verifier, err := NewVerifier(alg, &key.PublicKey)
	vAssume(err == nil)
	digestEquivalence(alg, signer, verifier)
}

func digestEquivalence(alg Algorithm, signer Signer, verifier Verifier) {
	content := vBlob("content")
	digest := vHash(refHashOfAlg(int64(alg)), content)
	ds, ok := signer.(DigestSigner)
	vAssert("digest: signer implements DigestSigner", ok)
	dv, ok2 := verifier.(DigestVerifier)
	vAssert("digest: verifier implements DigestVerifier", ok2)
	vAssume(ok && ok2)
	var sig []byte
	var err error
	if vChoose("entry", 2) == 0 {
		sig, err = signer.Sign(vRand(), content)
	} else {
		sig, err = ds.SignDigest(vRand(), digest)
	}
	if err != nil {
		vAssert("digest: no bytes with an error", sig == nil)
		vAssert("digest: signing fails only when the primitive fails", vEnvFailed())
		vReach("sign failed")
		return
	}
	// the signer is used again before the first signature is checked: signatures are the caller's own
	if vChoose("second", 2) == 1 {
		content2 := vBlob("content2")
		var sig2 []byte
		var err2 error
		if vChoose("entry2", 2) == 0 {
			sig2, err2 = signer.Sign(vRand(), content2)
		} else {
			sig2, err2 = ds.SignDigest(vRand(), vHash(refHashOfAlg(int64(alg)), content2))
		}
		if err2 == nil {
			vAssert("digest: a second signature from the same signer verifies", verifier.Verify(content2, sig2) == nil)
		}
	}
	vAssert("digest: verifies through Verify", verifier.Verify(content, sig) == nil)
	vAssert("digest: verifies through VerifyDigest under the algorithm's hash", dv.VerifyDigest(digest, sig) == nil)
	vReach("end")
}

func H_C17_ed25519() {
	key := vEdKey("key")
	signer, err := NewSigner(AlgorithmEdDSA, key)
	vAssume(err == nil)
	verifier, err := NewVerifier(AlgorithmEdDSA, key.Public())
	vAssume(err == nil)
	content := vBlob("content")
	sig, err := signer.Sign(vRand(), content)
	vAssert("ed25519: signing with a well-formed key succeeds", err == nil)
	vAssume(err == nil)
	vAssert("ed25519: verifies", verifier.Verify(content, sig) == nil)
	vReach("end")
	var _ ed25519.PublicKey
	var _ *ecdsa.PublicKey
	var _ *rsa.PublicKey
}

// wrappedKey: a foreign crypto.Signer (HSM / KMS style) around a genuine key; records what it is asked to sign
type wrappedKey struct {
	inner crypto.Signer
	got   []byte
	hash  crypto.Hash
	calls int
}

func (w *wrappedKey) Public() crypto.PublicKey { return w.inner.Public() }
func (w *wrappedKey) Sign(r io.Reader, d []byte, o crypto.SignerOpts) ([]byte, error) {
	w.calls++
	w.got = d
	if o != nil {
		w.hash = o.HashFunc()
	}
	return w.inner.Sign(r, d, o)
}

// the same equivalence when the key sits behind a foreign crypto.Signer: it is handed exactly the
// digest of the content under the algorithm's hash, and what it returns verifies through both entry points
func H_C17_digest_foreign() {
	var alg Algorithm
	var inner crypto.Signer
	var pub crypto.PublicKey
	if vChoose("family", 2) == 0 {
		alg = []Algorithm{AlgorithmES256, AlgorithmES384, AlgorithmES512}[vChoose("alg", 3)]
		key := vECKeyValid("key", vCurve("curve"))
		inner, pub = key, &key.PublicKey
	} else {
		alg = []Algorithm{AlgorithmPS256, AlgorithmPS384, AlgorithmPS512}[vChoose("alg", 3)]
		key := vRSAKeyValid("key")
		inner, pub = key, &key.PublicKey
	}
	wk := &wrappedKey{inner: inner}
	signer, err := NewSigner(alg, wk)
	vAssume(err == nil)
	verifier, err := NewVerifier(alg, pub)
	vAssume(err == nil)
	content := vBlob("content")
	digest := vHash(refHashOfAlg(int64(alg)), content)
	ds, ok := signer.(DigestSigner)
	vAssume(ok)
	var sig []byte
	if vChoose("entry", 2) == 0 {
		sig, err = signer.Sign(vRand(), content)
	} else {
		sig, err = ds.SignDigest(vRand(), digest)
	}
	if wk.calls > 0 {
		vAssert("foreign: the key is handed exactly the digest of the content under the algorithm's hash", vRopeEq(wk.got, digest))
	}
	if err != nil {
		vAssert("foreign: no bytes with an error", sig == nil)
		vReach("sign failed")
		return
	}
	// the signer is used again before the first signature is checked
	if vChoose("second", 2) == 1 {
		content2 := vBlob("content2")
		var sig2 []byte
		var err2 error
		if vChoose("entry2", 2) == 0 {
			sig2, err2 = signer.Sign(vRand(), content2)
		} else {
			sig2, err2 = ds.SignDigest(vRand(), vHash(refHashOfAlg(int64(alg)), content2))
		}
		if err2 == nil {
			vAssert("foreign: a second signature from the same signer verifies", verifier.Verify(content2, sig2) == nil)
		}
	}
	vAssert("foreign: verifies through Verify", verifier.Verify(content, sig) == nil)
	if dv, ok := verifier.(DigestVerifier); ok {
		vAssert("foreign: verifies through VerifyDigest", dv.VerifyDigest(digest, sig) == nil)
	}
	vReach("end")
}
