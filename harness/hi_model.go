//go:build verif

package cose

import "github.com/fxamacker/cbor/v2"

// Model-conformance harnesses (./check MODEL): they exercise the CBOR model on
// arbitrary items and target types; every proved path is replayed natively and
// the observables recorded by the model (vExpect*) are compared with what the
// real fxamacker/cbor does. They assert nothing about go-cose.

func init() {
	vRegister("HM_decode_any", HM_decode_any)
	vRegister("HM_decode_typed", HM_decode_typed)
	vRegister("HM_encode_values", HM_encode_values)
}

type hmArray struct {
	_ struct{} `cbor:",toarray"`
	A cbor.RawMessage
	B byteString
}

func HM_decode_any() {
	tree := mkAny("t", 2)
	wire := vSer(tree)
	if vChoose("trailing", 2) == 1 {
		wire = append(wire, vBlobN("trail", 1, 3)...)
	}
	for _, mode := range []cbor.DecMode{decMode, decModeWithTagsForbidden} {
		var v any
		err := mode.Unmarshal(wire, &v)
		vExpectBool("accept", err == nil)
		vExpectBool("wellformed", mode.Wellformed(wire) == nil)
		if err == nil {
			out, eerr := encMode.Marshal(v)
			vExpectBool("reencode", eerr == nil)
			if eerr == nil {
				vExpectInt("reencoded.len", len(out))
			}
			switch x := v.(type) {
			case int64:
				vExpectInt("kind", 1)
				vExpectBool("negative", x < 0)
			case []byte:
				vExpectInt("kind", 2)
				vExpectInt("len", len(x))
			case string:
				vExpectInt("kind", 3)
			case []any:
				vExpectInt("kind", 4)
				vExpectInt("len", len(x))
			case map[any]any:
				vExpectInt("kind", 5)
				vExpectInt("len", len(x))
			case cbor.Tag:
				vExpectInt("kind", 6)
			case bool:
				vExpectInt("kind", 7)
			case nil:
				vExpectInt("kind", 8)
			case float64:
				vExpectInt("kind", 9)
			case cbor.SimpleValue:
				vExpectInt("kind", 10)
			default:
				vExpectInt("kind", 0)
			}
		}
	}
	vReach("end")
}

func HM_decode_typed() {
	tree := mkAny("t", 1)
	wire := vSer(tree)
	var b []byte
	vExpectBool("bytes", decMode.Unmarshal(wire, &b) == nil)
	var bs byteString
	e2 := decMode.Unmarshal(wire, &bs)
	vExpectBool("byteString", e2 == nil)
	if e2 == nil {
		vExpectBool("byteString.nil", bs == nil)
	}
	var raw cbor.RawMessage
	vExpectBool("raw", decMode.Unmarshal(wire, &raw) == nil)
	var m map[any]cbor.RawMessage
	e4 := decMode.Unmarshal(wire, &m)
	vExpectBool("mapraw", e4 == nil)
	if e4 == nil {
		vExpectInt("mapraw.len", len(m))
	}
	var arr hmArray
	vExpectBool("toarray", decModeWithTagsForbidden.Unmarshal(vSer(nnArray([]*vNodeT{tree, mkAny("u", 0)}, vWidth("aw", 2))), &arr) == nil)
	var cs []*Countersignature
	vExpectBool("cslist", decMode.Unmarshal(wire, &cs) == nil)
	var lbl map[headerLabelValidator]discardedCBORMessage
	vExpectBool("labels", decMode.Unmarshal(wire, &lbl) == nil)
	vReach("end")
}

func HM_encode_values() {
	var v any
	switch vChoose("kind", 12) {
	case 0:
		v = vInt64("i")
	case 1:
		v = vUint64("u")
	case 2:
		v = int8(vInt64("i8"))
	case 3:
		v = vBlob("b")
	case 4:
		v = []byte(nil)
	case 5:
		s := vStr("s", 3)
		v = s
	case 6:
		v = []any{vInt64("a0"), nil, vBool("a2")}
	case 7:
		v = map[any]any{vInt64("k0"): vBlob("v0"), "z": vInt64("v1")}
	case 8:
		v = map[any]any(nil)
	case 9:
		tn := vUint64("tag")
		vAssume(tn > 5 && tn != 55799)
		v = cbor.Tag{Number: tn, Content: vInt64("tc")}
	case 10:
		v = cbor.RawMessage(vSer(mkAny("raw", 0)))
	case 11:
		v = Algorithm(vInt64("alg"))
	}
	out, err := encMode.Marshal(v)
	vExpectBool("encodes", err == nil)
	if err == nil {
		vExpectInt("len", len(out))
		t := vParse(out)
		vExpectBool("parses", t != nil)
		if t != nil {
			vExpectInt("major", nMajor(t))
			vExpectBool("minimal", nMinimal(t))
		}
		var back any
		vExpectBool("decodes", decMode.Unmarshal(out, &back) == nil)
	}
	vReach("end")
}
