//go:build verif

package cose

// Reference CBOR tree: constructors, serialiser and parser. Natively this is a
// small independent implementation of RFC 8949 framing; the symbolic engine
// intercepts all nn*/n*/vSer/vParse functions and works on symbolic trees.

import "encoding/binary"

type vNodeT struct {
	major   int
	arg     uint64
	width   int // extra head bytes: 0,1,2,4,8
	indef   bool
	content []byte
	kids    []*vNodeT // array elements; map: k0,v0,k1,v1...; tag: content
	raw     []byte    // for parsed nodes: exact encoding
}

func vMinWidth(a uint64) int {
	switch {
	case a < 24:
		return 0
	case a < 1<<8:
		return 1
	case a < 1<<16:
		return 2
	case a < 1<<32:
		return 4
	}
	return 8
}

// vWidth: an encoder's choice of head width for argument a: any legal form.
func vWidth(name string, a uint64) int {
	w := int(vInt64(name))
	vAssume(w == 0 || w == 1 || w == 2 || w == 4 || w == 8)
	vAssume(w >= vMinWidth(a))
	return w
}

// width -1 = shortest form
func vW(width int, arg uint64) int {
	if width < 0 {
		return vMinWidth(arg)
	}
	return width
}

func nnInt(major int, arg uint64, width int) *vNodeT {
	return &vNodeT{major: major, arg: arg, width: vW(width, arg)}
}
func nnBstr(content []byte, width int) *vNodeT {
	return &vNodeT{major: 2, arg: uint64(len(content)), width: vW(width, uint64(len(content))), content: content}
}
func nnTstr(content string, width int) *vNodeT {
	return &vNodeT{major: 3, arg: uint64(len(content)), width: vW(width, uint64(len(content))), content: []byte(content)}
}
func nnArray(kids []*vNodeT, width int) *vNodeT {
	return &vNodeT{major: 4, arg: uint64(len(kids)), width: vW(width, uint64(len(kids))), kids: kids}
}
func nnMap(pairs []*vNodeT, width int) *vNodeT {
	return &vNodeT{major: 5, arg: uint64(len(pairs) / 2), width: vW(width, uint64(len(pairs)/2)), kids: pairs}
}
func nnTag(num uint64, kid *vNodeT, width int) *vNodeT {
	return &vNodeT{major: 6, arg: num, width: vW(width, num), kids: []*vNodeT{kid}}
}
func nnSimple(val uint64, width int) *vNodeT {
	return &vNodeT{major: 7, arg: val, width: vW(width, val)}
}

// nnIndef: the same container / string in indefinite-length form (strings: one chunk).
func nnIndef(n *vNodeT) *vNodeT {
	c := *n
	c.indef = true
	return &c
}

// nnEmbed: a node standing for already encoded bytes (one item).
func nnEmbed(b []byte) *vNodeT { return &vNodeT{major: -1, raw: b} }

func vHead(major int, arg uint64, width int) []byte {
	b := []byte{byte(major << 5)}
	switch width {
	case 0:
		b[0] |= byte(arg)
	case 1:
		b[0] |= 24
		b = append(b, byte(arg))
	case 2:
		b[0] |= 25
		b = binary.BigEndian.AppendUint16(b, uint16(arg))
	case 4:
		b[0] |= 26
		b = binary.BigEndian.AppendUint32(b, uint32(arg))
	case 8:
		b[0] |= 27
		b = binary.BigEndian.AppendUint64(b, arg)
	}
	return b
}

func vSer(n *vNodeT) []byte {
	if n.major < 0 {
		return append([]byte{}, n.raw...)
	}
	var out []byte
	if n.indef {
		out = []byte{byte(n.major<<5) | 31}
		switch n.major {
		case 2, 3:
			out = append(out, vHead(n.major, uint64(len(n.content)), vMinWidth(uint64(len(n.content))))...)
			out = append(out, n.content...)
		default:
			for _, k := range n.kids {
				out = append(out, vSer(k)...)
			}
		}
		return append(out, 0xff)
	}
	out = vHead(n.major, n.arg, n.width)
	switch n.major {
	case 2, 3:
		out = append(out, n.content...)
	case 4, 5, 6:
		for _, k := range n.kids {
			out = append(out, vSer(k)...)
		}
	}
	return out
}

// vParse parses exactly one well-formed item (nil if malformed or trailing bytes).
func vParse(b []byte) *vNodeT {
	n, used := vParseOne(b, 0)
	if n == nil || used != len(b) {
		return nil
	}
	return n
}

func vParseOne(b []byte, depth int) (*vNodeT, int) {
	if len(b) == 0 || depth > 64 {
		return nil, 0
	}
	n := &vNodeT{major: int(b[0] >> 5)}
	ai := b[0] & 0x1f
	pos := 1
	switch {
	case ai < 24:
		n.arg = uint64(ai)
	case ai <= 27:
		n.width = 1 << (ai - 24)
		if len(b) < 1+n.width {
			return nil, 0
		}
		for i := 0; i < n.width; i++ {
			n.arg = n.arg<<8 | uint64(b[1+i])
		}
		pos += n.width
	case ai == 31 && n.major >= 2 && n.major <= 5:
		n.indef = true
	default:
		return nil, 0
	}
	switch n.major {
	case 2, 3:
		if n.indef {
			for {
				if pos >= len(b) {
					return nil, 0
				}
				if b[pos] == 0xff {
					pos++
					break
				}
				if int(b[pos]>>5) != n.major || b[pos]&0x1f == 31 {
					return nil, 0
				}
				c, u := vParseOne(b[pos:], depth+1)
				if c == nil {
					return nil, 0
				}
				n.content = append(n.content, c.content...)
				pos += u
			}
			n.arg = uint64(len(n.content))
		} else {
			if n.arg > uint64(len(b)-pos) {
				return nil, 0
			}
			n.content = b[pos : pos+int(n.arg)]
			pos += int(n.arg)
		}
	case 4, 5, 6:
		cnt := n.arg
		if n.major == 5 {
			cnt *= 2
		}
		if n.major == 6 {
			cnt = 1
		}
		if n.indef {
			for {
				if pos >= len(b) {
					return nil, 0
				}
				if b[pos] == 0xff {
					pos++
					break
				}
				c, u := vParseOne(b[pos:], depth+1)
				if c == nil {
					return nil, 0
				}
				n.kids = append(n.kids, c)
				pos += u
			}
			if n.major == 5 && len(n.kids)%2 != 0 {
				return nil, 0
			}
			n.arg = uint64(len(n.kids))
			if n.major == 5 {
				n.arg /= 2
			}
		} else {
			if cnt > uint64(len(b)) {
				return nil, 0
			}
			for i := uint64(0); i < cnt; i++ {
				c, u := vParseOne(b[pos:], depth+1)
				if c == nil {
					return nil, 0
				}
				n.kids = append(n.kids, c)
				pos += u
			}
		}
	case 7:
		if ai == 24 && n.arg < 32 {
			return nil, 0
		}
	}
	n.raw = b[:pos]
	return n, pos
}

func nMajor(n *vNodeT) int    { return n.major }
func nArg(n *vNodeT) uint64   { return n.arg }
func nWidth(n *vNodeT) int    { return n.width }
func nIsIndef(n *vNodeT) bool { return n.indef }
func nMinimal(n *vNodeT) bool { return !n.indef && n.width == vMinWidth(n.arg) }
func nLen(n *vNodeT) int {
	if n.major == 5 {
		return len(n.kids) / 2
	}
	return len(n.kids)
}
func nChild(n *vNodeT, i int) *vNodeT { return n.kids[i] }
func nKey(n *vNodeT, i int) *vNodeT   { return n.kids[2*i] }
func nVal(n *vNodeT, i int) *vNodeT   { return n.kids[2*i+1] }
func nBytes(n *vNodeT) []byte         { return n.content }
func nRaw(n *vNodeT) []byte {
	if n.raw != nil {
		return n.raw
	}
	return vSer(n)
}
