//go:build verif

package cose

func init() {
	vRegister("H_C02_sign1_constructed", H_C02_sign1_constructed)
}

// refCheckSigStructure: content must be the deterministic encoding of
// [context, prot..., external, payload] where every prot element is a bstr
// with the given content.
func refCheckSigStructure(tag string, content []byte, context string, prots [][]byte, external, payload []byte) {
	t := vParse(content)
	vAssert(tag+": ToBeSigned is exactly one well-formed CBOR item", t != nil)
	if t == nil {
		return
	}
	vAssert(tag+": Sig_structure is an array", nMajor(t) == 4)
	vAssert(tag+": array head shortest form", nMinimal(t))
	vAssert(tag+": arity", nLen(t) == 3+len(prots))
	if nMajor(t) != 4 || nLen(t) != 3+len(prots) {
		return
	}
	c := nChild(t, 0)
	vAssert(tag+": context is a text string", nMajor(c) == 3)
	vAssert(tag+": context head shortest", nMinimal(c))
	vAssert(tag+": context string", string(nBytes(c)) == context)
	for i, p := range prots {
		pn := nChild(t, 1+i)
		vAssert(tag+": protected is a byte string", nMajor(pn) == 2)
		vAssert(tag+": protected length prefix shortest form", nMinimal(pn))
		vAssert(tag+": protected content byte-identical", vRopeEq(nBytes(pn), p))
	}
	en := nChild(t, 1+len(prots))
	vAssert(tag+": external_aad is a byte string", nMajor(en) == 2)
	vAssert(tag+": external_aad head shortest", nMinimal(en))
	vAssert(tag+": external_aad content (nil == empty)", vRopeEq(nBytes(en), external))
	pl := nChild(t, 2+len(prots))
	vAssert(tag+": payload is a byte string", nMajor(pl) == 2)
	vAssert(tag+": payload head shortest", nMinimal(pl))
	vAssert(tag+": payload content", vRopeEq(nBytes(pl), payload))
}

// constructed COSE_Sign1: what the signer receives vs. what is later emitted
func H_C02_sign1_constructed() {
	var h Headers
	switch vChoose("hdr", 3) {
	case 0:
		h = Headers{Protected: ProtectedHeader(mkBenignMap("p", 2+vTier(), c02Rich())), Unprotected: UnprotectedHeader(mkBenignMap("u", 1, false))}
	case 1: // the zero Headers: nil maps (Sign allocates the protected map to insert alg)
	case 2:
		h = Headers{Protected: ProtectedHeader{}, Unprotected: UnprotectedHeader{}}
	}
	msg := &Sign1Message{Headers: h, Payload: vBlob("payload")}
	ext := mkExternal("ext")
	spy := &spySigner{alg: Algorithm(vInt64("alg")), sig: vBlobN("sig", 1, 200)}
	tagged := vChoose("tagged", 2) == 0
	var err error
	if tagged {
		err = msg.Sign(nil, ext, spy)
	} else {
		err = (*UntaggedSign1Message)(msg).Sign(nil, ext, spy)
	}
	if err != nil {
		vAssert("signer not called when Sign fails", spy.calls == 0)
		vReach("sign refused")
		return
	}
	vAssert("signer called exactly once", spy.calls == 1)
	var out []byte
	if tagged {
		out, err = msg.MarshalCBOR()
	} else {
		out, err = (*UntaggedSign1Message)(msg).MarshalCBOR()
	}
	vAssert("signed message can be encoded", err == nil)
	if err != nil {
		return
	}
	// the protected bytes on the wire
	w := vParse(out)
	vAssert("emitted message is one CBOR item", w != nil)
	if w == nil {
		return
	}
	arr := w
	if tagged {
		vAssert("emitted message is tag 18", nMajor(w) == 6 && nArg(w) == 18)
		arr = nChild(w, 0)
	}
	vAssert("emitted body is a 4-array", nMajor(arr) == 4 && nLen(arr) == 4)
	wp := nChild(arr, 0)
	vAssert("wire protected is a bstr", nMajor(wp) == 2)
	refCheckSigStructure("sign1", spy.content, "Signature1", [][]byte{nBytes(wp)}, ext, msg.Payload)
	vReach("end")
}

func init() {
	vRegister("H_C02_sign1_decoded", H_C02_sign1_decoded)
}

// a COSE_Sign1 received in any valid encoding: the verifier sees the Sig_structure over the wire bytes
func H_C02_sign1_decoded() {
	prot, protContent := mkWireProtected("p", 2)
	unprot := mkWireHeaderMap("u", 1)
	pl, payload := mkWireBstr("payload", 0, 1<<31-1)
	sg, sig := mkWireBstr("sig", 1, 200)
	arr := nnArray([]*vNodeT{prot, unprot, pl, sg}, 0)
	tagged := vChoose("tagged", 2) == 0
	ext := mkExternal("ext")
	spy := &spyVerifier{alg: Algorithm(vInt64("alg"))}
	var verr error
	var again *Sign1Message
	if tagged {
		var m Sign1Message
		err := m.UnmarshalCBOR(vSer(nnTag(18, arr, 0)))
		vAssert("decoded: conforming tagged message accepted", err == nil)
		if err != nil {
			return
		}
		again = &m
		verr = m.Verify(ext, spy)
	} else {
		var m UntaggedSign1Message
		err := m.UnmarshalCBOR(vSer(arr))
		vAssert("decoded: conforming untagged message accepted", err == nil)
		if err != nil {
			return
		}
		verr = m.Verify(ext, spy)
	}
	if verr != nil {
		vAssert("decoded: verifier not consulted when Verify refuses", spy.calls == 0)
		vReach("verify refused")
		return
	}
	vAssert("decoded: verifier consulted exactly once", spy.calls == 1)
	vAssert("decoded: verifier gets the wire signature", vRopeEq(spy.sig, sig))
	refCheckSigStructure("sign1/decoded", spy.content, "Signature1", [][]byte{protContent}, ext, payload)
	// a second consumer of the same decoded message sees the same bytes
	if tagged {
		spy2 := &spyVerifier{alg: spy.alg}
		if again.Verify(ext, spy2) == nil {
			vAssert("decoded: verifying again hands over the same structure", spy2.calls == 1 && vRopeEq(spy2.content, spy.content))
		}
	}
	vReach("end")
}

func init() {
	vRegister("H_C02_signature_constructed", H_C02_signature_constructed)
	vRegister("H_C02_signature_decoded", H_C02_signature_decoded)
	vRegister("H_C02_noninterference", H_C02_noninterference)
}

func c02Rich() bool { return vTier() == 1 }

// constructed COSE_Sign: every signer gets ["Signature", body_protected, sign_protected, external, payload]
func H_C02_signature_constructed() {
	n := 1 + vChoose("n", 2)
	msg := &SignMessage{
		Headers: Headers{Protected: ProtectedHeader(mkBenignMap("bp", 1, c02Rich())), Unprotected: UnprotectedHeader(mkBenignMap("bu", 1, false))},
		Payload: vBlob("payload"),
	}
	var spies []*spySigner
	var signers []Signer
	for i := 0; i < n; i++ {
		nm := "s" + vItoa(i)
		msg.Signatures = append(msg.Signatures, &Signature{Headers: Headers{Protected: ProtectedHeader(mkBenignMap(nm+".p", 1, false)), Unprotected: UnprotectedHeader{}}})
		sp := &spySigner{alg: Algorithm(vInt64(nm + ".alg")), sig: vBlobN(nm+".sig", 1, 100)}
		spies, signers = append(spies, sp), append(signers, sp)
	}
	ext := mkExternal("ext")
	if err := msg.Sign(nil, ext, signers...); err != nil {
		vReach("sign refused")
		return
	}
	out, err := msg.MarshalCBOR()
	vAssert("sign: signed message encodes", err == nil)
	if err != nil {
		return
	}
	w := vParse(out)
	ok := w != nil && nMajor(w) == 6 && nArg(w) == 98 && nMajor(nChild(w, 0)) == 4 && nLen(nChild(w, 0)) == 4
	vAssert("sign: emitted message is tag 98 + 4-array", ok)
	if !ok {
		return
	}
	body := nChild(w, 0)
	sa := nChild(body, 3)
	ok = nMajor(sa) == 4 && nLen(sa) == n
	vAssert("sign: n signatures emitted", ok)
	if !ok {
		return
	}
	for i := 0; i < n; i++ {
		sn := nChild(sa, i)
		if nMajor(sn) != 4 || nLen(sn) != 3 {
			vAssert("sign: COSE_Signature is a 3-array", false)
			continue
		}
		vAssert("sign: signer called once", spies[i].calls == 1)
		refCheckSigStructure("signature/constructed", spies[i].content, "Signature",
			[][]byte{nBytes(nChild(body, 0)), nBytes(nChild(sn, 0))}, ext, msg.Payload)
	}
	vReach("end")
}

// decoded COSE_Sign in any encoding: each verifier sees the structure over the wire bytes of body and its own signer
func H_C02_signature_decoded() {
	bp, bcontent := mkWireProtected("bp", 1)
	bu := nnMap(nil, vWidth("buw", 0))
	pl, payload := mkWireBstr("payload", 0, 1<<31-1)
	n := 1 + vChoose("n", 2)
	var sigNodes []*vNodeT
	var contents [][]byte
	var sigs [][]byte
	for i := 0; i < n; i++ {
		nm := "s" + vItoa(i)
		var p *vNodeT
		var c []byte
		if i == 0 || c02Rich() {
			p, c = mkWireProtected(nm+".p", 1)
		} else {
			// quick: the second signer has the empty protected header, any head width
			c = []byte{}
			p = nnBstr(c, vWidth(nm+".pw", 0))
		}
		sg, sb := mkWireBstr(nm+".sig", 1, 200)
		sigNodes = append(sigNodes, nnArray([]*vNodeT{p, nnMap(nil, vWidth(nm+".uw", 0)), sg}, 0))
		contents, sigs = append(contents, c), append(sigs, sb)
	}
	var m SignMessage
	err := m.UnmarshalCBOR(vSer(nnTag(98, nnArray([]*vNodeT{bp, bu, pl, nnArray(sigNodes, vWidth("saw", uint64(n)))}, 0), 1)))
	vAssert("sign/decoded: conforming COSE_Sign accepted", err == nil)
	if err != nil {
		return
	}
	ext := mkExternal("ext")
	var spies []*spyVerifier
	var verifiers []Verifier
	for i := 0; i < n; i++ {
		sv := &spyVerifier{alg: Algorithm(vInt64("v" + vItoa(i) + ".alg"))}
		spies, verifiers = append(spies, sv), append(verifiers, sv)
	}
	if m.Verify(ext, verifiers...) != nil {
		vReach("verify refused")
		return
	}
	for i := 0; i < n; i++ {
		vAssert("sign/decoded: verifier i gets signature i", vRopeEq(spies[i].sig, sigs[i]))
		refCheckSigStructure("signature/decoded", spies[i].content, "Signature", [][]byte{bcontent, contents[i]}, ext, payload)
	}
	vReach("end")
}

// neither the unprotected headers nor the CBOR tag contribute a single byte (two-run comparison)
func H_C02_noninterference() {
	prot, _ := mkWireProtected("p", 2)
	ua := mkWireHeaderMap("ua", 1)
	ub := mkWireHeaderMap("ub", 1)
	pl, _ := mkWireBstr("payload", 0, 1<<31-1)
	sg, _ := mkWireBstr("sig", 1, 200)
	var a Sign1Message
	var b UntaggedSign1Message
	vAssume(a.UnmarshalCBOR(vSer(nnTag(18, nnArray([]*vNodeT{prot, ua, pl, sg}, 0), 0))) == nil)
	vAssume(b.UnmarshalCBOR(vSer(nnArray([]*vNodeT{prot, ub, pl, sg}, 0))) == nil)
	ext := mkExternal("ext")
	alg := Algorithm(vInt64("alg"))
	sa, sb := &spyVerifier{alg: alg}, &spyVerifier{alg: alg}
	ea, eb := a.Verify(ext, sa), b.Verify(ext, sb)
	vAssert("noninterference: same verdict path", (ea == nil) == (eb == nil))
	if ea == nil && eb == nil {
		vAssert("noninterference: identical ToBeSigned for messages differing only in unprotected headers and tag", vRopeEq(sa.content, sb.content))
	}
	// nil and empty external data are equivalent
	s1, s2 := &spyVerifier{alg: alg}, &spyVerifier{alg: alg}
	e1, e2 := a.Verify(nil, s1), a.Verify([]byte{}, s2)
	vAssert("noninterference: nil and empty external data behave alike", (e1 == nil) == (e2 == nil))
	if e1 == nil && e2 == nil {
		vAssert("noninterference: nil and empty external data give identical bytes", vRopeEq(s1.content, s2.content))
	}
	vReach("end")
}
