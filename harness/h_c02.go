//go:build verif

package cose

func init() {
	vRegister("H_C02_sign1_constructed", H_C02_sign1_constructed)
}

// refCheckSigStructure: content must be the deterministic encoding of
// [context, prot..., external, payload] where every prot element is a bstr
// with the given content.
func refCheckSigStructure(tag string, content []byte, context string, prots [][]byte, external, payload []byte) {
	t := vParse(content)
	vAssert(tag+": ToBeSigned is exactly one well-formed CBOR item", t != nil)
	if t == nil {
		return
	}
	vAssert(tag+": Sig_structure is an array", nMajor(t) == 4)
	vAssert(tag+": array head shortest form", nMinimal(t))
	vAssert(tag+": arity", nLen(t) == 3+len(prots))
	if nMajor(t) != 4 || nLen(t) != 3+len(prots) {
		return
	}
	c := nChild(t, 0)
	vAssert(tag+": context is a text string", nMajor(c) == 3)
	vAssert(tag+": context head shortest", nMinimal(c))
	vAssert(tag+": context string", string(nBytes(c)) == context)
	for i, p := range prots {
		pn := nChild(t, 1+i)
		vAssert(tag+": protected is a byte string", nMajor(pn) == 2)
		vAssert(tag+": protected length prefix shortest form", nMinimal(pn))
		vAssert(tag+": protected content byte-identical", vRopeEq(nBytes(pn), p))
	}
	en := nChild(t, 1+len(prots))
	vAssert(tag+": external_aad is a byte string", nMajor(en) == 2)
	vAssert(tag+": external_aad head shortest", nMinimal(en))
	vAssert(tag+": external_aad content (nil == empty)", vRopeEq(nBytes(en), external))
	pl := nChild(t, 2+len(prots))
	vAssert(tag+": payload is a byte string", nMajor(pl) == 2)
	vAssert(tag+": payload head shortest", nMinimal(pl))
	vAssert(tag+": payload content", vRopeEq(nBytes(pl), payload))
}

// constructed COSE_Sign1: what the signer receives vs. what is later emitted
func H_C02_sign1_constructed() {
	msg := &Sign1Message{
		Headers: Headers{Protected: ProtectedHeader(mkBenignMap("p", 2, false)), Unprotected: UnprotectedHeader(mkBenignMap("u", 1, false))},
		Payload: vBlob("payload"),
	}
	ext := mkExternal("ext")
	spy := &spySigner{alg: Algorithm(vInt64("alg")), sig: vBlobN("sig", 1, 200)}
	err := msg.Sign(nil, ext, spy)
	if err != nil {
		vAssert("signer not called when Sign fails", spy.calls == 0)
		vReach("sign refused")
		return
	}
	vAssert("signer called exactly once", spy.calls == 1)
	out, err := msg.MarshalCBOR()
	vAssert("signed message can be encoded", err == nil)
	if err != nil {
		return
	}
	// the protected bytes on the wire
	w := vParse(out)
	vAssert("emitted message is one CBOR item", w != nil)
	if w == nil {
		return
	}
	vAssert("emitted message is tag 18", nMajor(w) == 6 && nArg(w) == 18)
	arr := nChild(w, 0)
	vAssert("emitted body is a 4-array", nMajor(arr) == 4 && nLen(arr) == 4)
	wp := nChild(arr, 0)
	vAssert("wire protected is a bstr", nMajor(wp) == 2)
	refCheckSigStructure("sign1", spy.content, "Signature1", [][]byte{nBytes(wp)}, ext, msg.Payload)
	vReach("end")
}

func init() {
	vRegister("H_C02_sign1_decoded", H_C02_sign1_decoded)
}

// a COSE_Sign1 received in any valid encoding: the verifier sees the Sig_structure over the wire bytes
func H_C02_sign1_decoded() {
	prot, protContent := mkWireProtected("p", 2)
	unprot := mkWireHeaderMap("u", 1)
	pl, payload := mkWireBstr("payload", 0, 1<<31-1)
	sg, sig := mkWireBstr("sig", 1, 200)
	arr := nnArray([]*vNodeT{prot, unprot, pl, sg}, 0)
	tagged := vChoose("tagged", 2) == 0
	ext := mkExternal("ext")
	spy := &spyVerifier{alg: Algorithm(vInt64("alg"))}
	var verr error
	if tagged {
		var m Sign1Message
		err := m.UnmarshalCBOR(vSer(nnTag(18, arr, 0)))
		vAssert("decoded: conforming tagged message accepted", err == nil)
		if err != nil {
			return
		}
		verr = m.Verify(ext, spy)
	} else {
		var m UntaggedSign1Message
		err := m.UnmarshalCBOR(vSer(arr))
		vAssert("decoded: conforming untagged message accepted", err == nil)
		if err != nil {
			return
		}
		verr = m.Verify(ext, spy)
	}
	if verr != nil {
		vAssert("decoded: verifier not consulted when Verify refuses", spy.calls == 0)
		vReach("verify refused")
		return
	}
	vAssert("decoded: verifier consulted exactly once", spy.calls == 1)
	vAssert("decoded: verifier gets the wire signature", vRopeEq(spy.sig, sig))
	refCheckSigStructure("sign1/decoded", spy.content, "Signature1", [][]byte{protContent}, ext, payload)
	vReach("end")
}
