//go:build verif

package cose

func init() {
	vRegister("H_C11_decoded_pair", H_C11_decoded_pair)
	vRegister("H_C11_verify", H_C11_verify)
	vRegister("H_C11_sign", H_C11_sign)
	vRegister("H_C11_codec", H_C11_codec)
}

func c11MaxN() int {
	if vTier() == 1 {
		return 6
	}
	return 4
}

// COSE_Sign verification: nil iff counts match and every signature verifies under the verifier at its own position
func H_C11_verify() {
	n := vChoose("n", c11MaxN()+1)
	m := n + vChoose("dm", 3) - 1
	if m < 0 {
		m = 0
	}
	msg := &SignMessage{Headers: Headers{Protected: ProtectedHeader{}, Unprotected: UnprotectedHeader{}}}
	hasPayload := vChoose("payload.kind", 2) == 0
	if hasPayload {
		msg.Payload = vBlob("payload")
	}
	ext := mkExternal("ext")
	allOK := true
	var sigs [][]byte
	var algs []int64
	for i := 0; i < n; i++ {
		nm := "s" + string(rune('0'+i))
		a := vInt64(nm + ".alg")
		sig := vBlobN(nm+".sig", 0, 100)
		sigs = append(sigs, sig)
		algs = append(algs, a)
		msg.Signatures = append(msg.Signatures, &Signature{
			Headers:   Headers{Protected: ProtectedHeader{HeaderLabelAlgorithm: Algorithm(a)}, Unprotected: UnprotectedHeader{}},
			Signature: sig,
		})
	}
	var spies []*spyVerifier
	var verifiers []Verifier
	// a rejecting verifier reports its own error or the library's ErrVerification (as the built-in ones do)
	var failErr error
	if vChoose("failkind", 2) == 1 {
		failErr = ErrVerification
	}
	for j := 0; j < m; j++ {
		nm := "v" + string(rune('0'+j))
		sp := &spyVerifier{alg: Algorithm(vInt64(nm + ".alg")), fail: vBool(nm + ".fail"), failErr: failErr}
		spies = append(spies, sp)
		verifiers = append(verifiers, sp)
	}
	err := msg.Verify(ext, verifiers...)
	// specification
	expectOK := n > 0 && m == n && hasPayload
	if expectOK {
		for i := 0; i < n; i++ {
			if len(sigs[i]) == 0 || algs[i] != int64(spies[i].alg) || spies[i].fail {
				allOK = false
			}
		}
	}
	if expectOK && allOK {
		vAssert("verify: all good => nil", err == nil)
	} else {
		vAssert("verify: any count mismatch / missing payload / empty, mismatching or failing signature => error", err != nil)
	}
	if err == nil {
		for i := 0; i < len(spies) && i < n; i++ {
			vAssert("verify: verifier i consulted exactly once", spies[i].calls == 1)
			vAssert("verify: verifier i got signature i", vRopeEq(spies[i].sig, sigs[i]))
		}
		// Sig_structure per signer, against the emitted message
		out, merr := msg.MarshalCBOR()
		vAssert("verify: verified message can be encoded", merr == nil)
		if merr == nil {
			w := vParse(out)
			if w != nil && nMajor(w) == 6 && nMajor(nChild(w, 0)) == 4 && nLen(nChild(w, 0)) == 4 {
				body := nChild(w, 0)
				bodyProt := nBytes(nChild(body, 0))
				sa := nChild(body, 3)
				vAssert("verify: emitted signatures array has n entries", nMajor(sa) == 4 && nLen(sa) == n)
				for i := 0; i < n && nLen(sa) == n; i++ {
					sn := nChild(sa, i)
					if nMajor(sn) == 4 && nLen(sn) == 3 {
						refCheckSigStructure("verify/signer", spies[i].content, "Signature", [][]byte{bodyProt, nBytes(nChild(sn, 0))}, ext, msg.Payload)
					} else {
						vAssert("verify: emitted COSE_Signature is a 3-array", false)
					}
				}
			} else {
				vAssert("verify: emitted message is tag + 4-array", false)
			}
		}
		// the verdict is recomputed on every call: the same message object, now with one rejecting verifier
		k := vChoose("again.failAt", n)
		var again []Verifier
		for j := 0; j < n; j++ {
			again = append(again, &spyVerifier{alg: spies[j].alg, fail: j == k, failErr: failErr})
		}
		vAssert("verify: a later call with a rejecting verifier at any position fails", msg.Verify(ext, again...) != nil)
	}
	vReach("end")
}

// signing: fills every slot or reports an error
func H_C11_sign() {
	n := vChoose("n", c11MaxN()+1)
	m := n + vChoose("dm", 3) - 1
	if m < 0 {
		m = 0
	}
	msg := &SignMessage{Headers: Headers{Protected: ProtectedHeader{}, Unprotected: UnprotectedHeader{}}, Payload: vBlob("payload")}
	for i := 0; i < n; i++ {
		msg.Signatures = append(msg.Signatures, NewSignature())
	}
	var spies []*spySigner
	var signers []Signer
	for j := 0; j < m; j++ {
		nm := "k" + string(rune('0'+j))
		sp := &spySigner{alg: Algorithm(vInt64(nm + ".alg")), sig: vBlobN(nm+".sig", 0, 100), fail: vBool(nm + ".fail")}
		spies = append(spies, sp)
		signers = append(signers, sp)
	}
	err := msg.Sign(nil, nil, signers...)
	if n == 0 || m != n {
		vAssert("sign: no signatures / count mismatch is an error", err != nil)
		for _, sp := range spies {
			vAssert("sign: no signer called on count mismatch", sp.calls == 0)
		}
		vReach("count")
		return
	}
	anyFail := false
	for i := 0; i < n; i++ {
		if spies[i].fail {
			anyFail = true
		}
	}
	if anyFail {
		vAssert("sign: a failing signer makes Sign fail", err != nil)
	}
	if err == nil {
		for i := 0; i < n; i++ {
			vAssert("sign: slot i holds signer i's output", vRopeEq(msg.Signatures[i].Signature, spies[i].sig))
			vAssert("sign: signer i called once", spies[i].calls == 1)
		}
	} else {
		// first failing position k: slots >= k that were empty stay empty
		for i := 0; i < n; i++ {
			if spies[i].calls == 0 {
				vAssert("sign: an uncalled signer's slot stays empty", len(msg.Signatures[i].Signature) == 0)
			}
			if spies[i].calls == 1 && spies[i].fail {
				vAssert("sign: a failed signer's slot stays empty", len(msg.Signatures[i].Signature) == 0)
			}
		}
	}
	// whatever happened, the message can be serialised only if every slot is non-empty
	out, merr := msg.MarshalCBOR()
	allFilled := true
	for i := 0; i < n; i++ {
		if len(msg.Signatures[i].Signature) == 0 {
			allFilled = false
		}
	}
	if !allFilled {
		vAssert("sign: a message with an empty slot cannot be encoded", merr != nil && out == nil)
	}
	vReach("end")
}

// zero signatures / an empty signature can be neither encoded nor decoded
func H_C11_codec() {
	n := vChoose("n", 4)
	emptyAt := vChoose("emptyAt", n+1) // n = none
	var kids []*vNodeT
	msg := &SignMessage{Headers: Headers{Protected: ProtectedHeader{}, Unprotected: UnprotectedHeader{}}, Payload: vBlob("payload")}
	// the slot without a signature: empty byte string, or no COSE_Signature at all (nil in memory, null / undefined on the wire)
	emptyKind := 0
	if emptyAt < n {
		emptyKind = vChoose("emptyKind", 3)
	}
	for i := 0; i < n; i++ {
		nm := "s" + string(rune('0'+i))
		lo := 1
		if i == emptyAt {
			lo = 0
		}
		hi := 50
		if i == emptyAt {
			hi = 0
		}
		sb := vBlobN(nm+".sig", lo, hi)
		if i == emptyAt && emptyKind > 0 {
			msg.Signatures = append(msg.Signatures, nil)
			kids = append(kids, nnSimple(uint64(21+emptyKind), 0))
			continue
		}
		msg.Signatures = append(msg.Signatures, &Signature{Headers: Headers{Protected: ProtectedHeader{}, Unprotected: UnprotectedHeader{}}, Signature: sb})
		kids = append(kids, nnArray([]*vNodeT{nnBstr([]byte{}, 0), nnMap(nil, 0), nnBstr(sb, vWidth(nm+".w", uint64(len(sb))))}, 0))
	}
	bad := n == 0 || emptyAt < n
	out, err := msg.MarshalCBOR()
	if bad {
		vAssert("codec: encode refuses no / empty signatures", err != nil && out == nil)
	} else {
		vAssert("codec: encode accepts n>=1 non-empty signatures", err == nil)
	}
	pl, _ := mkWireBstr("wpayload", 0, 1000)
	wire := vSer(nnTag(98, nnArray([]*vNodeT{nnBstr([]byte{}, 0), nnMap(nil, 0), pl, nnArray(kids, vWidth("aw", uint64(n)))}, 0), 1))
	var d SignMessage
	derr := d.UnmarshalCBOR(wire)
	if bad {
		vAssert("codec: decode refuses no / empty signatures", derr != nil)
	} else {
		vAssert("codec: decode accepts n>=1 non-empty signatures", derr == nil)
		if derr == nil {
			vAssert("codec: decoded signature count", len(d.Signatures) == n)
		}
	}
	vReach("end")
}

// a received COSE_Sign with two signers whose protected headers mean the same but are spelt differently
// (or not): each verifier is consulted over its own signer's Sig_structure, built from that signer's wire bytes
func H_C11_decoded_pair() {
	mk := func(name string) (*vNodeT, []byte, []byte) {
		pairs := []*vNodeT{nnInt(0, 1, vWidth(name+".kw", 1)), nnInt(1, 6, vWidth(name+".vw", 6))}
		kid := []*vNodeT{nnInt(0, 4, vWidth(name+".kidkw", 4)), nnBstr([]byte("1"), vWidth(name+".kidw", 1))}
		if vChoose(name+".order", 2) == 0 { // entry order is the sender's choice
			pairs = append(pairs, kid...)
		} else {
			pairs = append(kid, pairs...)
		}
		content := vSer(nnMap(pairs, vWidth(name+".mw", 2)))
		sig := vBlobN(name+".sig", 1, 64)
		return nnArray([]*vNodeT{nnBstr(content, vWidth(name+".pw", uint64(len(content)))), nnMap(nil, 0), nnBstr(sig, -1)}, 0), content, sig
	}
	s0, c0, g0 := mk("s0")
	s1, c1, g1 := mk("s1")
	payload := vBlob("payload")
	var m SignMessage
	vAssume(m.UnmarshalCBOR(vSer(nnTag(98, nnArray([]*vNodeT{nnBstr([]byte{}, 0), nnMap(nil, 0), nnBstr(payload, -1), nnArray([]*vNodeT{s0, s1}, 0)}, 0), 1))) == nil)
	ext := mkExternal("ext")
	v0, v1 := &spyVerifier{alg: AlgorithmES256}, &spyVerifier{alg: AlgorithmES256}
	err := m.Verify(ext, v0, v1)
	vAssert("pair: two accepting verifiers => nil", err == nil)
	if err != nil {
		return
	}
	vAssert("pair: each verifier consulted once with its own signature", v0.calls == 1 && v1.calls == 1 && vRopeEq(v0.sig, g0) && vRopeEq(v1.sig, g1))
	vAssert("pair: verifier 0 sees its own signer's structure", vRopeEq(v0.content, refSigStructure("Signature", [][]byte{{}, c0}, ext, payload, nil)))
	vAssert("pair: verifier 1 sees its own signer's structure", vRopeEq(v1.content, refSigStructure("Signature", [][]byte{{}, c1}, ext, payload, nil)))
	vReach("end")
}
